package main

// C11: MPD patch — op `leaf <xs> <ys> <script>` (leaf-list diff vs. the Lean model for the same Myers script),
// an independent RFC 5261 applier for the XPath subset the differ emits, and monitors: served patch flow and
// diffs of random id-carrying MPD-like trees.

import (
	"fmt"
	"net/http"
	"net/http/httptest"
	neturl "net/url"
	"regexp"
	"sort"
	"strconv"
	"strings"

	"github.com/Dash-Industry-Forum/livesim2/cmd/livesim2/app"
	"github.com/Dash-Industry-Forum/livesim2/pkg/patch"
	"github.com/beevik/etree"
)

func init() {
	opExec["leaf"] = execLeaf
	opExec["myers"] = execMyers
	generators["C11"] = genC11
}

func leafEq(a, b *etree.Element) bool {
	if a.Tag != b.Tag || a.Text() != b.Text() || len(a.Attr) != len(b.Attr) {
		return false
	}
	for i := range a.Attr {
		if a.Attr[i].Key != b.Attr[i].Key || a.Attr[i].Value != b.Attr[i].Value {
			return false
		}
	}
	return true
}

func sElems(codes []int) []*etree.Element {
	var out []*etree.Element
	for _, c := range codes {
		e := etree.NewElement("S")
		e.CreateAttr("d", strconv.Itoa(c))
		out = append(out, e)
	}
	return out
}

func timelineDoc(codes []int, pt string) string {
	var sb strings.Builder
	fmt.Fprintf(&sb, `<MPD id="m" publishTime="%s"><PatchLocation ttl="600">x</PatchLocation><Period id="p"><AdaptationSet id="1"><SegmentTemplate><SegmentTimeline>`, pt)
	for _, c := range codes {
		fmt.Fprintf(&sb, `<S d="%d"/>`, c)
	}
	sb.WriteString(`</SegmentTimeline></SegmentTemplate></AdaptationSet></Period></MPD>`)
	return sb.String()
}

func scriptStr(ops []patch.Op) string {
	if len(ops) == 0 {
		return "-"
	}
	var p []string
	for _, o := range ops {
		if o.OpType == patch.OpDelete {
			p = append(p, fmt.Sprintf("d%d", o.OldPos))
		} else {
			p = append(p, fmt.Sprintf("i%d:%d", o.OldPos, o.NewPos))
		}
	}
	return strings.Join(p, ",")
}

// op `myers <xs> <ys>`: the edit script of the real MyersDiff (the Lean side runs its own model of the algorithm)
func execMyers(a []string) string {
	if len(a) != 2 {
		return "bad-op"
	}
	script, pan := safeMyers(parseIntList(a[0]), parseIntList(a[1]))
	if pan != "" {
		return "PANIC"
	}
	return scriptStr(script)
}

var selIdxRe = regexp.MustCompile(`/S\[(\d+)\]$`)

func execLeaf(a []string) string {
	if len(a) != 3 {
		return "bad-op"
	}
	xs, ys := parseIntList(a[0]), parseIntList(a[1])
	script := patch.MyersDiff(sElems(xs), sElems(ys), leafEq)
	if scriptStr(script) != a[2] {
		return "script-mismatch " + scriptStr(script)
	}
	oldDoc, newDoc := timelineDoc(xs, "2024-01-01T00:00:00Z"), timelineDoc(ys, "2024-01-01T00:00:02Z")
	doc, _, err := patch.MPDDiff([]byte(oldDoc), []byte(newDoc))
	if err != nil {
		return "err " + strings.ReplaceAll(err.Error(), " ", "_")
	}
	var ops []string
	for _, e := range doc.Root().ChildElements() {
		sel := e.SelectAttrValue("sel", "")
		if !strings.Contains(sel, "SegmentTimeline") {
			continue // publishTime attribute etc.
		}
		switch e.Tag {
		case "remove":
			m := selIdxRe.FindStringSubmatch(sel)
			if m == nil {
				return "unexpected-sel " + sel
			}
			k, _ := strconv.Atoi(m[1])
			ops = append(ops, fmt.Sprintf("rm%d", k-1))
		case "add":
			ch := e.ChildElements()
			if len(ch) != 1 {
				return "unexpected-add"
			}
			v := ch[0].SelectAttrValue("d", "?")
			if e.SelectAttrValue("pos", "") == "prepend" {
				ops = append(ops, "pp"+v)
			} else {
				m := selIdxRe.FindStringSubmatch(sel)
				if m == nil {
					return "unexpected-sel " + sel
				}
				k, _ := strconv.Atoi(m[1])
				ops = append(ops, fmt.Sprintf("aa%d:%s", k-1, v))
			}
		}
	}
	applied, aerr := applyPatch(oldDoc, doc)
	applies := 0
	if aerr == nil && canonXML(applied) == canonXMLStr(newDoc) {
		applies = 1
	}
	return fmt.Sprintf("ops=[%s] valid=%d applies=%d", strings.Join(ops, ";"), b2i(validScript(xs, ys, script)), applies)
}

// validScript is the harness' own statement of script validity (kept stretches equal, positions in order).
func validScript(xs, ys []int, ops []patch.Op) bool {
	i, j := 0, 0
	for _, o := range ops {
		p := o.OldPos
		if p < i {
			return false
		}
		for ; i < p; i, j = i+1, j+1 {
			if i >= len(xs) || j >= len(ys) || xs[i] != ys[j] {
				return false
			}
		}
		if o.OpType == patch.OpDelete {
			if p >= len(xs) {
				return false
			}
			i++
		} else {
			if o.NewPos != j || j >= len(ys) {
				return false
			}
			j++
		}
	}
	for ; i < len(xs) || j < len(ys); i, j = i+1, j+1 {
		if i >= len(xs) || j >= len(ys) || xs[i] != ys[j] {
			return false
		}
	}
	return true
}

// ---------------- RFC 5261 applier (subset) ----------------

var stepRe = regexp.MustCompile(`^([A-Za-z0-9_:.-]+)(?:\[(?:@(id|schemeIdUri)='([^']*)'|(\d+))\])?$`)

// selectNode resolves a selector; returns the element and an attribute name ("" for an element selector).
func selectNode(root *etree.Element, sel string) (*etree.Element, string, error) {
	parts := strings.Split(strings.TrimPrefix(sel, "/"), "/")
	if len(parts) == 0 || parts[0] != root.Tag {
		return nil, "", fmt.Errorf("selector %q does not start at the root", sel)
	}
	cur := root
	for pi, st := range parts[1:] {
		if strings.HasPrefix(st, "@") {
			if pi != len(parts)-2 {
				return nil, "", fmt.Errorf("attribute step inside %q", sel)
			}
			return cur, st[1:], nil
		}
		m := stepRe.FindStringSubmatch(st)
		if m == nil {
			return nil, "", fmt.Errorf("unsupported step %q", st)
		}
		var cands []*etree.Element
		for _, ch := range cur.ChildElements() {
			if ch.Tag == m[1] {
				cands = append(cands, ch)
			}
		}
		var next *etree.Element
		switch {
		case m[2] != "":
			n := 0
			for _, ch := range cands {
				if ch.SelectAttrValue(m[2], "\x00") == m[3] {
					next = ch
					n++
				}
			}
			if n != 1 {
				return nil, "", fmt.Errorf("step %q matches %d nodes", st, n)
			}
		case m[4] != "":
			k, _ := strconv.Atoi(m[4])
			if k < 1 || k > len(cands) {
				return nil, "", fmt.Errorf("step %q matches no node", st)
			}
			next = cands[k-1]
		default:
			if len(cands) != 1 {
				return nil, "", fmt.Errorf("step %q matches %d nodes", st, len(cands))
			}
			next = cands[0]
		}
		cur = next
	}
	return cur, "", nil
}

func applyPatch(oldXML string, p *etree.Document) (*etree.Document, error) {
	d := etree.NewDocument()
	if err := d.ReadFromString(oldXML); err != nil {
		return nil, err
	}
	root := d.Root()
	for _, op := range p.Root().ChildElements() {
		sel := op.SelectAttrValue("sel", "")
		el, attr, err := selectNode(root, sel)
		if err != nil {
			return nil, fmt.Errorf("%s %q: %w", op.Tag, sel, err)
		}
		switch op.Tag {
		case "replace":
			if attr != "" {
				if el.SelectAttr(attr) == nil {
					return nil, fmt.Errorf("replace %q: no such attribute", sel)
				}
				el.CreateAttr(attr, op.Text())
			} else {
				ch := op.ChildElements()
				par := el.Parent()
				if len(ch) != 1 || par == nil {
					return nil, fmt.Errorf("replace %q: bad content", sel)
				}
				par.InsertChildAt(el.Index(), ch[0].Copy())
				par.RemoveChild(el)
			}
		case "add":
			if attr != "" {
				if el.SelectAttr(attr) != nil {
					return nil, fmt.Errorf("add %q: attribute exists", sel)
				}
				el.CreateAttr(attr, op.Text())
				continue
			}
			ch := op.ChildElements()
			if len(ch) != 1 {
				return nil, fmt.Errorf("add %q: bad content", sel)
			}
			switch op.SelectAttrValue("pos", "") {
			case "prepend":
				el.InsertChildAt(0, ch[0].Copy())
			case "after":
				par := el.Parent()
				if par == nil {
					return nil, fmt.Errorf("add after root")
				}
				par.InsertChildAt(el.Index()+1, ch[0].Copy())
			default:
				el.AddChild(ch[0].Copy())
			}
		case "remove":
			if attr != "" {
				if el.RemoveAttr(attr) == nil {
					return nil, fmt.Errorf("remove %q: no such attribute", sel)
				}
			} else {
				par := el.Parent()
				if par == nil {
					return nil, fmt.Errorf("remove root")
				}
				par.RemoveChild(el)
			}
		default:
			return nil, fmt.Errorf("unknown op %s", op.Tag)
		}
	}
	return d, nil
}

// canonXML: elements with sorted attributes, trimmed text, no whitespace-only char data.
func canonElem(e *etree.Element, sb *strings.Builder) {
	sb.WriteString("<" + e.Tag)
	attrs := append([]etree.Attr(nil), e.Attr...)
	sort.Slice(attrs, func(i, j int) bool { return attrs[i].FullKey() < attrs[j].FullKey() })
	for _, a := range attrs {
		fmt.Fprintf(sb, " %s=%q", a.FullKey(), a.Value)
	}
	sb.WriteString(">")
	sb.WriteString(strings.TrimSpace(e.Text()))
	for _, c := range e.ChildElements() {
		canonElem(c, sb)
	}
	sb.WriteString("</" + e.Tag + ">")
}

func canonXML(d *etree.Document) string {
	var sb strings.Builder
	canonElem(d.Root(), &sb)
	return sb.String()
}

func canonXMLStr(s string) string {
	d := etree.NewDocument()
	if err := d.ReadFromString(s); err != nil {
		return "unparsable"
	}
	return canonXML(d)
}

// ---------------- generators ----------------

func genC11(c *Ctx) {
	r := c.Rng
	// leaf lists: timeline-like evolutions and arbitrary pairs
	for i := 0; i < c.N(1500, 30000); i++ {
		n := r.Range(0, 9)
		xs := make([]int, n)
		for k := range xs {
			xs[k] = r.Pick(10, 10, 10, 9, 11, 12)
		}
		ys := append([]int(nil), xs...)
		switch r.Intn(8) {
		case 0: // oldest leaves, newest appended
			if len(ys) > 0 {
				ys = ys[1:]
			}
			ys = append(ys, r.Pick(10, 9))
		case 1: // several at once
			k := r.Intn(len(ys) + 1)
			ys = ys[k:]
			for t := r.Range(1, 4); t > 0; t-- {
				ys = append(ys, r.Pick(10, 11))
			}
		case 2: // value changes in the middle (r changes)
			if len(ys) > 0 {
				ys[r.Intn(len(ys))] = r.Pick(13, 14)
			}
		case 3: // arbitrary other list
			ys = make([]int, r.Range(0, 9))
			for k := range ys {
				ys[k] = r.Pick(10, 9, 11, 12)
			}
		case 4: // insert at start / remove at end
			ys = append([]int{r.Pick(8, 10)}, ys...)
			if len(ys) > 2 {
				ys = ys[:len(ys)-1]
			}
		case 5:
			ys = nil
		case 6: // reverse
			for a, b := 0, len(ys)-1; a < b; a, b = a+1, b-1 {
				ys[a], ys[b] = ys[b], ys[a]
			}
		}
		script, pan := safeMyers(xs, ys)
		if pan != "" {
			c.Violate("myers-panic", fmt.Sprintf("MyersDiff panics on %v -> %v: %s", xs, ys, pan), []string{fmt.Sprintf("# myers %s %s", intsStr(xs), intsStr(ys))}, nil)
			continue
		}
		line := fmt.Sprintf("leaf %s %s %s", intsStr(xs), intsStr(ys), scriptStr(script))
		out := c.Emit(line, len(xs)+len(ys) > 0)
		if !strings.Contains(out, "applies=1") {
			c.Violate("leaf-apply", fmt.Sprintf("patch of timeline %v -> %v does not reproduce the new list: %s", xs, ys, out), []string{line}, nil)
		}
		if strings.Contains(out, "valid=0") {
			c.Count("myers-script-not-valid")
		}
	}
	c11Myers(c)
	c11Trees(c)
	c11Flow(c)
}

// c11Myers: the model of the Myers search itself against the real one, on lists that exercise what the timeline
// evolutions do not: long common prefixes / suffixes, one list much shorter than the other (diagonals below -Z), few
// distinct values (many equally short scripts), single insertions / deletions at every position (the D <= 1 branches).
func c11Myers(c *Ctx) {
	r := c.Rng
	emit := func(xs, ys []int) {
		c.Emit(fmt.Sprintf("myers %s %s", intsStr(xs), intsStr(ys)), len(xs)+len(ys) > 0)
	}
	// systematic: every single insertion / deletion / replacement on short lists
	for n := 0; n <= 5; n++ {
		base := make([]int, n)
		for k := range base {
			base[k] = 10 + k%2
		}
		emit(base, base)
		for pos := 0; pos <= n; pos++ {
			for _, v := range []int{10, 11, 12} {
				ys := append(append(append([]int(nil), base[:pos]...), v), base[pos:]...)
				emit(base, ys)
				emit(ys, base)
			}
		}
	}
	for i := 0; i < c.N(600, 20000); i++ {
		alpha := r.Range(1, 4)
		n, m := r.Range(0, 12), r.Range(0, 12)
		if r.Intn(5) == 0 {
			n, m = r.Range(0, 2), r.Range(6, 30)
		}
		if r.Intn(2) == 0 {
			n, m = m, n
		}
		xs, ys := make([]int, n), make([]int, m)
		for k := range xs {
			xs[k] = 10 + r.Intn(alpha)
		}
		for k := range ys {
			ys[k] = 10 + r.Intn(alpha)
		}
		if r.Intn(3) == 0 { // common prefix / suffix
			pre := make([]int, r.Range(0, 6))
			for k := range pre {
				pre[k] = 10 + r.Intn(alpha)
			}
			if r.Intn(2) == 0 {
				xs, ys = append(append([]int(nil), pre...), xs...), append(append([]int(nil), pre...), ys...)
			} else {
				xs, ys = append(xs, pre...), append(ys, pre...)
			}
		}
		emit(xs, ys)
	}
}

func safeMyers(xs, ys []int) (script []patch.Op, pan string) {
	defer func() {
		if r := recover(); r != nil {
			pan = fmt.Sprint(r)
		}
	}()
	return patch.MyersDiff(sElems(xs), sElems(ys), leafEq), ""
}

func intsStr(l []int) string {
	if len(l) == 0 {
		return "-"
	}
	p := make([]string, len(l))
	for i, v := range l {
		p[i] = strconv.Itoa(v)
	}
	return strings.Join(p, ",")
}

// c11Trees: diff of two random id-carrying MPD-like documents, applied with the harness' applier.
func c11Trees(c *Ctx) {
	r := c.Rng
	// attributes that the second document may gain or lose: names that sort before, between and after the fixed ones
	// (id, lang / id, bandwidth); attributes with a namespace prefix are left out: the generator writes their selector
	// without the prefix (observed, not pursued: livesim2's own MPDs never change such an attribute)
	asAttrs, repAttrs := "", ""
	attrSets := [][2]string{{"", ""}, {` startWithSAP="1"`, ` width="640"`}, {` contentType="video"`, ` audioSamplingRate="48000"`},
		{` segmentAlignment="true" zzz="1"`, ` height="360" width="640"`}, {` aaa="0"`, ` codecs="avc1"`}, {` zzzz="u"`, ` zz="9" aa="0"`}}
	mk := func(pt string, periods []int, baseURLs, sVariant, utc int, lang string, roles int) string {
		var sb strings.Builder
		fmt.Fprintf(&sb, `<MPD id="m" publishTime="%s" type="dynamic"><PatchLocation ttl="600">x</PatchLocation>`, pt)
		for i := 0; i < baseURLs; i++ {
			fmt.Fprintf(&sb, `<BaseURL>bu%d/</BaseURL>`, i)
		}
		for _, p := range periods {
			fmt.Fprintf(&sb, `<Period id="P%d" start="PT%dS"><AdaptationSet id="1" lang="%s"%s>`, p, p*60, lang, asAttrs)
			for k := 0; k < roles; k++ {
				fmt.Fprintf(&sb, `<Role schemeIdUri="urn:role:%d" value="main"/>`, k)
			}
			sb.WriteString(`<SegmentTemplate media="$Time$.m4s"><SegmentTimeline>`)
			for k := 0; k < 3+sVariant; k++ {
				fmt.Fprintf(&sb, `<S d="%d"/>`, 10+k%2)
			}
			fmt.Fprintf(&sb, `</SegmentTimeline></SegmentTemplate><Representation id="V1" bandwidth="1"%s/></AdaptationSet></Period>`, repAttrs)
		}
		for k := 0; k < utc; k++ {
			fmt.Fprintf(&sb, `<UTCTiming schemeIdUri="urn:utc:%d" value="x"/>`, k)
		}
		sb.WriteString(`</MPD>`)
		return sb.String()
	}
	for i := 0; i < c.N(300, 5000); i++ {
		p0 := r.Range(1, 50)
		np := r.Range(1, 3)
		var pa, pb []int
		for k := 0; k < np; k++ {
			pa = append(pa, p0+k)
		}
		pb = append(pb, pa...)
		switch r.Intn(4) {
		case 0:
			pb = append(pb, p0+np) // period added
		case 1:
			if len(pb) > 1 {
				pb = pb[1:] // oldest period removed
			}
		case 2:
			pb = []int{p0 + np + 1} // all periods exchanged
		}
		ba, bb := r.Range(0, 3), r.Range(0, 3)
		if r.Intn(2) == 0 {
			bb = ba
		}
		at := attrSets[r.Pick(0, 0, r.Intn(len(attrSets)))]
		asAttrs, repAttrs = at[0], at[1]
		a := mk("2024-01-01T00:00:00Z", pa, ba, r.Intn(3), r.Range(0, 2), "en", r.Range(0, 2))
		at = attrSets[r.Pick(0, r.Intn(len(attrSets)), r.Intn(len(attrSets)))]
		asAttrs, repAttrs = at[0], at[1]
		b := mk("2024-01-01T00:00:10Z", pb, bb, r.Intn(3), r.Range(0, 2), r.PickS("en", "en", "sv"), r.Range(0, 2))
		doc, _, err := patch.MPDDiff([]byte(a), []byte(b))
		c.Count("tree-diffs")
		rp := []string{"# MPDDiff", a, b}
		if err != nil {
			c.Violate("tree-diff-error", "MPDDiff fails on id-carrying documents: "+err.Error(), rp, nil)
			continue
		}
		applied, err := applyPatch(a, doc)
		if err != nil {
			kind := "tree-apply"
			if ba != bb {
				kind = "tree-apply-baseurl" // non-id children whose count changes
			}
			c.Violate(kind, "patch cannot be applied: "+err.Error(), rp, nil)
			continue
		}
		if canonXML(applied) != canonXMLStr(b) {
			kind := "tree-result"
			if ba != bb {
				kind = "tree-result-baseurl"
			}
			c.Violate(kind, "patched document differs from the new document", rp, nil)
		}
	}
}

// c11Flow: MPD(t1) -> advertised PatchLocation -> GET at t2 -> apply -> compare with MPD(t2).
func c11Flow(c *Ctx) {
	getServer()
	r := c.Rng
	s := getServer()
	one := func(a *app.VerifAsset, mode string, ttl int, extra string, t1, t2 int64) {
		mpdPath := fmt.Sprintf("/livesim2/patch_%d/%s%s/%s/%s", ttl, extra, mode, a.AssetPath, a.MPDs[0])
		m1 := doLive("GET", fmt.Sprintf("%s?nowMS=%d", mpdPath, t1))
		m2 := doLive("GET", fmt.Sprintf("%s?nowMS=%d", mpdPath, t2))
		if m1.code != 200 || m2.code != 200 {
			return
		}
		x1, err := parseMPD(m1.body)
		if err != nil || len(x1.PatchLoc) == 0 {
			c.Violate("flow-no-patchlocation", "MPD with patch_ttl has no PatchLocation", []string{"# GET " + mpdPath}, nil)
			return
		}
		x2, _ := parseMPD(m2.body)
		loc := strings.TrimSpace(x1.PatchLoc[0].Value)
		// the location names the MPD it is advertised in
		if i := strings.Index(loc, "publishTime="); i >= 0 {
			v := loc[i+len("publishTime="):]
			if j := strings.IndexByte(v, '&'); j >= 0 {
				v = v[:j]
			}
			if uv, err := neturl.QueryUnescape(v); err != nil || uv != x1.PublishTime {
				c.Violate("flow-location-pt", fmt.Sprintf("the PatchLocation carries publishTime=%s, the MPD it is in has publishTime %s", v, x1.PublishTime), []string{fmt.Sprintf("# GET %s?nowMS=%d", mpdPath, t1)}, nil)
				return
			}
		} else {
			c.Violate("flow-location-pt", "the PatchLocation carries no publishTime", []string{fmt.Sprintf("# GET %s?nowMS=%d", mpdPath, t1)}, nil)
			return
		}
		url := loc + fmt.Sprintf("&nowMS=%d", t2)
		req := newReq("GET", url)
		rec := newRec()
		func() {
			defer func() {
				if rr := recover(); rr != nil {
					rec.Code = -1
				}
			}()
			s.Router.ServeHTTP(rec, req)
		}()
		c.Count("flow-requests")
		rp := []string{"# GET " + mpdPath + fmt.Sprintf("?nowMS=%d", t1), "# GET " + url}
		pt1, _ := dateToMS(x1.PublishTime)
		pt2, _ := dateToMS(x2.PublishTime)
		switch {
		case pt1 == pt2:
			if canonXMLStr(string(m1.body)) != canonXMLStr(string(m2.body)) {
				c.Violate("flow-same-pt-other-mpd", fmt.Sprintf("the MPDs at %d and %d differ but carry the same publishTime %s: the client is told that nothing changed", t1, t2, x1.PublishTime), rp, nil)
				return
			}
			if rec.Code != 425 {
				c.Violate("flow-same-pt", fmt.Sprintf("nothing changed (same publishTime) but the patch request answered %d", rec.Code), rp, nil)
			}
			return
		case pt2 > pt1+int64(ttl+10)*1000:
			if rec.Code != 410 {
				c.Violate("flow-late", fmt.Sprintf("beyond the time-to-live the patch request answered %d", rec.Code), rp, nil)
			}
			return
		}
		if rec.Code != 200 {
			c.Violate("flow-status", fmt.Sprintf("patch request within the TTL answered %d", rec.Code), rp, nil)
			return
		}
		pd := etree.NewDocument()
		if err := pd.ReadFromBytes(rec.Body.Bytes()); err != nil {
			c.Violate("flow-unparsable", "patch document does not parse", rp, nil)
			return
		}
		if pd.Root().SelectAttrValue("originalPublishTime", "") != x1.PublishTime {
			c.Violate("flow-original-pt", "originalPublishTime is not the old MPD's publishTime", rp, nil)
			return
		}
		applied, err := applyPatch(string(m1.body), pd)
		if err != nil {
			c.Violate("flow-apply", "served patch cannot be applied to the MPD it was advertised in: "+err.Error(), rp, nil)
			return
		}
		if ca, cb := canonXML(applied), canonXMLStr(string(m2.body)); ca != cb {
			i := 0
			for i < len(ca) && i < len(cb) && ca[i] == cb[i] {
				i++
			}
			lo := i - 160
			if lo < 0 {
				lo = 0
			}
			cut := func(x string) string {
				hi := i + 160
				if hi > len(x) {
					hi = len(x)
				}
				if lo > len(x) {
					return ""
				}
				return x[lo:hi]
			}
			c.Violate("flow-result", "MPD(t1) + patch differs from MPD(t2)", rp, map[string]any{"patched": cut(ca), "served": cut(cb), "patch": string(rec.Body.Bytes())})
		}
	}
	// systematic: the oldest Period leaves the time-shift window between t1 and t2 (tsbd not a multiple of the period)
	if a := findVAsset("testpic_2s"); a != nil {
		for _, mode := range []string{"segtimeline_1", "segtimelinenr_1"} {
			for _, ex := range [][2]string{{"periods_60/tsbd_25/", "25"}, {"periods_60/tsbd_30/", "30"}, {"periods_60/tsbd_25/ato_0.5/", "25"}} {
				tsbd, _ := strconv.Atoi(ex[1])
				W := int64(1790000000000)/60000*60000 + int64(tsbd)*1000
				for _, d := range [][2]int64{{-300, 600}, {-1, 1}, {-1500, 2000}, {500, 1500}} {
					one(a, mode, 60, ex[0], W+d[0], W+d[0]+d[1])
				}
			}
		}
	}
	// systematic: both kinds of generated subtitles in one MPD (every AdaptationSet must be addressable by its id)
	if a := findVAsset("testpic_2s"); a != nil {
		for _, mode := range []string{"segtimeline_1", "segtimelinenr_1"} {
			one(a, mode, 60, "timesubsstpp_en/timesubswvtt_en/", 1790000000300, 1790000004300)
			one(a, mode, 60, "timesubsstpp_en,sv/timesubswvtt_sv/tsbd_10/", 1790000000300, 1790000012300)
		}
	}
	for ai := range vAssets {
		a := &vAssets[ai]
		for it := 0; it < c.N(4, 30); it++ {
			mode := r.PickS("segtimeline_1", "segtimelinenr_1")
			ttl := r.Pick(60, 30, 600)
			extra := r.PickS("", "", "periods_60/", "tsbd_30/", "periods_120/tsbd_10/", "ato_1.5/chunkdur_0.25/", "periods_60/ato_1/", "periods_120/ato_0.5/", "periods_60/ato_1.5/chunkdur_0.5/",
				"tsbd_25/start_1700000000/", "tsbd_7/start_61/", "tsbd_25/", "periods_60/tsbd_25/", "periods_60/tsbd_30/", "periods_120/tsbd_10/",
				"timesubsstpp_en/timesubswvtt_en/", "timesubsstpp_en,sv/timesubswvtt_sv,en/tsbd_10/")
			base := int64(1790000000000) + int64(r.Intn(100000))
			if strings.Contains(extra, "start_61/") && r.Intn(2) == 0 {
				base = 61000 + int64(r.Intn(200000)) // close to the start of the stream
			}
			t1 := base
			if strings.Contains(extra, "periods_") && r.Intn(2) == 0 {
				// right after a period boundary: the newest Period is listed before its first segment is announced
				t1 = base/120000*120000 + int64(r.Pick(0, 1, 300, 500, 999, 1000, 1500, a.SegmentDurMS-1))
			}
			if i := strings.Index(extra, "tsbd_"); strings.HasPrefix(extra, "periods_") && i > 0 && r.Intn(2) == 0 {
				// right before the oldest Period leaves the time-shift window (its successor's start + tsbd)
				tsbd, _ := strconv.Atoi(strings.TrimSuffix(extra[i+5:], "/"))
				t1 = base/120000*120000 + int64(tsbd)*1000 - int64(r.Pick(1, 300, 999, 1500))
			}
			t2 := t1 + int64(r.Pick(1, a.SegmentDurMS, 3*a.SegmentDurMS, a.LoopDurMS+7, 25000, (ttl+5)*1000, (ttl+20)*1000))
			one(a, mode, ttl, extra, t1, t2)
		}
	}
}

func newReq(method, url string) *http.Request { return httptest.NewRequest(method, url, nil) }
func newRec() *httptest.ResponseRecorder      { return httptest.NewRecorder() }
