package main

import (
	"fmt"
	"os"
)

func init() {
	opExec["rawget"] = func(a []string) string {
		res := doLive("GET", a[0])
		b := string(res.body)
		if len(b) > 300 {
			b = b[:300]
		}
		return fmt.Sprintf("%d %s %q", res.code, res.panicked, b)
	}
}

func init() {
	opExec["rawroot"] = func(a []string) string {
		s := getServer()
		rec := newRec()
		s.Router.ServeHTTP(rec, newReq("GET", a[0]))
		b := rec.Body.String()
		if len(b) > 400 {
			b = b[:400]
		}
		return fmt.Sprintf("%d %q", rec.Code, b)
	}
}

func init() {
	opExec["periods"] = func(a []string) string {
		res := doLive("GET", a[0])
		m, err := parseMPD(res.body)
		if err != nil {
			return fmt.Sprintf("%d unparsable", res.code)
		}
		out := fmt.Sprintf("%d pt=%s", res.code, m.PublishTime)
		for _, p := range m.Periods {
			out += fmt.Sprintf(" [%s start=%s", p.ID, p.Start)
			for i := range p.Sets {
				out += fmt.Sprintf(" %s:%v", asContentType(&p.Sets[i]), expandTL(p.Sets[i].SegmentTemplate))
			}
			out += "]"
		}
		return out
	}
}

func init() {
	opExec["savebody"] = func(a []string) string {
		res := doLive("GET", a[0])
		if err := os.WriteFile(a[1], res.body, 0o644); err != nil {
			return err.Error()
		}
		return fmt.Sprintf("%d %d bytes", res.code, len(res.body))
	}
}
