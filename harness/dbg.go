package main

import "fmt"

func init() {
	opExec["rawget"] = func(a []string) string {
		res := doLive("GET", a[0])
		b := string(res.body)
		if len(b) > 300 {
			b = b[:300]
		}
		return fmt.Sprintf("%d %s %q", res.code, res.panicked, b)
	}
}

func init() {
	opExec["rawroot"] = func(a []string) string {
		s := getServer()
		rec := newRec()
		s.Router.ServeHTTP(rec, newReq("GET", a[0]))
		b := rec.Body.String()
		if len(b) > 400 {
			b = b[:400]
		}
		return fmt.Sprintf("%d %q", rec.Code, b)
	}
}
