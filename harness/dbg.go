package main

import "fmt"

func init() {
	opExec["rawget"] = func(a []string) string {
		res := doLive("GET", a[0])
		b := string(res.body)
		if len(b) > 300 {
			b = b[:300]
		}
		return fmt.Sprintf("%d %s %q", res.code, res.panicked, b)
	}
}
