package main

// Shared livesim2 server fixture + the `seg` op (C01/C04 and the segment half of C02/C06/C13/C14).

import (
	"bytes"
	"context"
	"crypto/sha256"
	"encoding/hex"
	"fmt"
	"net/http"
	"net/http/httptest"
	"os"
	"regexp"
	"runtime/debug"
	"strconv"
	"strings"
	"sync"

	"github.com/Dash-Industry-Forum/livesim2/cmd/livesim2/app"
	"github.com/Eyevinn/mp4ff/bits"
	"github.com/Eyevinn/mp4ff/mp4"
)

var (
	srvOnce sync.Once
	srv     *app.Server
	srvErr  error
	vAssets []app.VerifAsset
)

var builtVodRoot string

func vodRoot() string {
	if d := os.Getenv("VERIF_VODROOT"); d != "" {
		return d
	}
	if builtVodRoot == "" {
		r, err := buildVodRoot()
		if err != nil {
			fmt.Fprintln(os.Stderr, "harness: buildVodRoot:", err)
			os.Exit(3)
		}
		builtVodRoot = r
	}
	return builtVodRoot
}

func cleanupVodRoot() {
	if builtVodRoot != "" {
		os.RemoveAll(builtVodRoot)
	}
}

func getServer() *app.Server {
	srvOnce.Do(func() {
		cfg := app.DefaultConfig
		cfg.VodRoot = vodRoot()
		cfg.RepDataRoot = ""
		cfg.TimeoutS = 0
		cfg.LogLevel = "ERROR"
		srv, srvErr = app.SetupServer(context.Background(), &cfg)
		if srvErr == nil {
			vAssets = srv.VerifAssets()
		}
	})
	if srvErr != nil {
		fmt.Fprintln(os.Stderr, "harness: SetupServer:", srvErr)
		os.Exit(3)
	}
	return srv
}

func findVAsset(name string) *app.VerifAsset {
	getServer()
	for i := range vAssets {
		if vAssets[i].AssetPath == name {
			return &vAssets[i]
		}
	}
	return nil
}

func (c *Ctx) emitAssetDefs() {
	getServer()
	for _, a := range vAssets {
		c.EmitOut(fmt.Sprintf("asset %s %d %d %s", a.AssetPath, a.LoopDurMS, a.SegmentDurMS, orDash(a.RefRep)), "ok", false)
		for _, r := range a.Reps {
			var segs []string
			for _, s := range r.Segments {
				segs = append(segs, fmt.Sprintf("%d:%d:%d", s.StartTime, s.EndTime, s.Nr))
			}
			sg := "-"
			if len(segs) > 0 {
				sg = strings.Join(segs, ",")
			}
			c.EmitOut(fmt.Sprintf("rep %s %s %s %d %d %d %d %d %s", a.AssetPath, r.ID, r.ContentType, r.MediaTimescale,
				r.ConstSampleDur, r.SampleDur, b2i(r.PreEncrypted), b2i(strings.HasPrefix(r.Codecs, "stpp")), sg), "ok", false)
		}
	}
}

func orDash(s string) string {
	if s == "" {
		return "-"
	}
	return s
}

func b2i(b bool) int {
	if b {
		return 1
	}
	return 0
}

// cfgToURL turns the model's config string into livesim2 URL parts.
func cfgToURL(cfg string) string {
	if cfg == "-" || cfg == "" {
		return ""
	}
	var parts []string
	for _, kv := range strings.Split(cfg, ",") {
		k, v, _ := strings.Cut(kv, "=")
		switch k {
		case "start":
			parts = append(parts, "start_"+v)
		case "tsbd":
			parts = append(parts, "tsbd_"+v)
		case "snr":
			parts = append(parts, "snr_"+v)
		case "ato":
			if v == "inf" {
				parts = append(parts, "ato_inf")
			} else {
				ms, _ := strconv.Atoi(v)
				parts = append(parts, "ato_"+strconv.FormatFloat(float64(ms)/1000, 'f', -1, 64))
			}
		case "mode":
			switch v {
			case "tlt":
				parts = append(parts, "segtimeline_1")
			case "tln":
				parts = append(parts, "segtimelinenr_1")
			}
		case "stop":
			parts = append(parts, "stop_"+v)
		default:
			parts = append(parts, k+"_"+v) // passed through (periods, continuous, scte35, statuscode, ...)
		}
	}
	if len(parts) == 0 {
		return ""
	}
	return strings.Join(parts, "/") + "/"
}

type httpRes struct {
	code     int
	body     []byte
	ctype    string
	panicked string
}

// doLive calls the livesim handler directly (not through middleware.Recoverer) so that a panic is observed.
func doLive(method, url string) (res httpRes) {
	s := getServer()
	req := httptest.NewRequest(method, url, nil)
	rec := httptest.NewRecorder()
	defer func() {
		if r := recover(); r != nil {
			if os.Getenv("VERIF_TRACE") != "" {
				fmt.Fprintf(os.Stderr, "panic: %v\n%s\n", r, debug.Stack())
			}
			res = httpRes{panicked: panicKind(r)}
		}
	}()
	s.LiveRouter.ServeHTTP(rec, req)
	noteContentLength(method, url, rec)
	return httpRes{code: rec.Code, body: rec.Body.Bytes(), ctype: rec.Header().Get("Content-Type")}
}

// A response recorder does not enforce Content-Length; a real HTTP server refuses the bytes beyond it and a client
// sees a truncated body.  Every recorded response is therefore checked: an announced length is the length of the body.
var (
	clMu         sync.Mutex
	clMismatches []string
)

func noteContentLength(method, url string, rec *httptest.ResponseRecorder) {
	cl := rec.Header().Get("Content-Length")
	if cl == "" || method == "HEAD" {
		return
	}
	if n, err := strconv.Atoi(cl); err != nil || n != rec.Body.Len() {
		clMu.Lock()
		if len(clMismatches) < 5 {
			clMismatches = append(clMismatches, fmt.Sprintf("%s %s: Content-Length %s, body of %d bytes", method, url, cl, rec.Body.Len()))
		}
		clMu.Unlock()
	}
}

var tooEarlyRe = regexp.MustCompile(`too early by (-?\d+)ms`)

type segInfo struct {
	seqs      []uint32
	tfdts     []uint64
	totalDur  uint64
	nrSamples int
	sampleSHA string // sha256 over the concatenated sample payloads
	hasStyp   bool
	emsgs     int
	fragGap   string // "" or: fragment i does not start where fragment i-1 ends
	err       error
}

// parseMediaSegment extracts what the property talks about from a media segment (init needed for defaults).
func parseMediaSegment(data []byte, trex *mp4.TrexBox) segInfo {
	var si segInfo
	f, err := mp4.DecodeFileSR(bits.NewFixedSliceReader(data))
	if err != nil {
		si.err = err
		return si
	}
	h := sha256.New()
	for _, seg := range f.Segments {
		if seg.Styp != nil {
			si.hasStyp = true
		}
		for _, frag := range seg.Fragments {
			si.seqs = append(si.seqs, frag.Moof.Mfhd.SequenceNumber)
			si.tfdts = append(si.tfdts, frag.Moof.Traf.Tfdt.BaseMediaDecodeTime())
			si.emsgs += len(frag.Emsgs)
			fss, err := frag.GetFullSamples(trex)
			if err != nil {
				si.err = err
				return si
			}
			if n := len(si.tfdts); n > 1 && si.fragGap == "" && si.tfdts[n-1] != si.tfdts[0]+si.totalDur {
				si.fragGap = fmt.Sprintf("fragment %d has tfdt %d, the fragments before it end at %d", n-1, si.tfdts[n-1], si.tfdts[0]+si.totalDur)
			}
			for _, fs := range fss {
				si.totalDur += uint64(fs.Dur)
				si.nrSamples++
				h.Write(fs.Data)
			}
		}
	}
	si.sampleSHA = hex.EncodeToString(h.Sum(nil))[:16]
	return si
}

type repFiles struct {
	trex     *mp4.TrexBox
	bySHA    map[string]uint32 // sample payload hash / file hash -> VoD segment nr
	shaOfIdx []string
}

var (
	repFilesMu    sync.Mutex
	repFilesCache = map[string]*repFiles{}
)

func mediaPath(r *app.VerifRep, seg app.Segment) string {
	p := strings.ReplaceAll(r.MediaURI, "$Number$", strconv.Itoa(int(seg.Nr)))
	return strings.ReplaceAll(p, "$Time$", strconv.FormatUint(seg.StartTime, 10))
}

// vodFiles indexes the VoD segments of a representation by payload hash (read directly from disk).
func vodFiles(a *app.VerifAsset, r *app.VerifRep) *repFiles {
	key := a.AssetPath + "|" + r.ID
	repFilesMu.Lock()
	defer repFilesMu.Unlock()
	if rf, ok := repFilesCache[key]; ok {
		return rf
	}
	rf := &repFiles{bySHA: map[string]uint32{}}
	if r.ContentType != "image" {
		if b, err := os.ReadFile(vodRoot() + "/" + a.AssetPath + "/" + r.InitURI); err == nil {
			if f, err := mp4.DecodeFileSR(bits.NewFixedSliceReader(b)); err == nil && f.Init != nil && f.Init.Moov.Mvex != nil {
				rf.trex = f.Init.Moov.Mvex.Trex
			}
		}
	}
	for _, s := range r.Segments {
		b, err := os.ReadFile(vodRoot() + "/" + a.AssetPath + "/" + mediaPath(r, s))
		sha := "?"
		if err == nil {
			if r.ContentType == "image" {
				x := sha256.Sum256(b)
				sha = hex.EncodeToString(x[:])[:16]
			} else {
				sha = parseMediaSegment(b, rf.trex).sampleSHA
			}
		}
		rf.shaOfIdx = append(rf.shaOfIdx, sha)
		if _, dup := rf.bySHA[sha]; !dup {
			rf.bySHA[sha] = s.Nr
		}
	}
	repFilesCache[key] = rf
	return rf
}

func segURL(a *app.VerifAsset, cfg, repID string, segID string, nowMS string) string {
	media := repID + "/" + segID + ".m4s"
	for i := range a.Reps {
		if a.Reps[i].ID == repID {
			media = strings.ReplaceAll(strings.ReplaceAll(a.Reps[i].MediaURI, "$Number$", segID), "$Time$", segID)
		}
	}
	return "/livesim2/" + cfgToURL(cfg) + a.AssetPath + "/" + media + "?nowMS=" + nowMS
}

func statusOnly(res httpRes) (string, bool) {
	if res.panicked != "" {
		return "PANIC", true
	}
	switch res.code {
	case 200:
		return "", false
	case 425:
		if m := tooEarlyRe.FindSubmatch(res.body); m != nil {
			return "425 ms=" + string(m[1]), true
		}
		if bytes.Contains(res.body, []byte("ms too early")) {
			return "425 pre-start", true
		}
		return "425 ?", true
	}
	return strconv.Itoa(res.code), true
}

func execSeg(a []string) string {
	if len(a) != 5 {
		return "bad-op"
	}
	va := findVAsset(a[0])
	if va == nil {
		return "bad-op"
	}
	res := doLive("GET", segURL(va, a[1], a[2], a[3], a[4]))
	if s, done := statusOnly(res); done {
		return s
	}
	var vr *app.VerifRep
	for i := range va.Reps {
		if va.Reps[i].ID == a[2] {
			vr = &va.Reps[i]
		}
	}
	if vr == nil {
		return "200 unknown-rep"
	}
	if vr.ContentType == "audio" && !vr.PreEncrypted {
		return audioSegLine(res.body, va, vr)
	}
	rf := vodFiles(va, vr)
	if vr.ContentType == "image" {
		x := sha256.Sum256(res.body)
		orig, ok := rf.bySHA[hex.EncodeToString(x[:])[:16]]
		if !ok {
			return "200 img orig=?"
		}
		return fmt.Sprintf("200 img orig=%d", orig)
	}
	si := parseMediaSegment(res.body, rf.trex)
	if si.err != nil || len(si.seqs) == 0 {
		return "200 unparsable"
	}
	if si.fragGap != "" {
		return "200 fragments-not-contiguous: " + si.fragGap
	}
	origS := "?"
	if strings.HasPrefix(vr.Codecs, "stpp") {
		origS = "stpp" // payload is rewritten (TTML timestamps); checked by the ttml monitor
	} else if o, ok := rf.bySHA[si.sampleSHA]; ok {
		origS = strconv.Itoa(int(o))
	}
	return fmt.Sprintf("200 nr=%d tfdt=%d dur=%d orig=%s", si.seqs[0], si.tfdts[0], si.totalDur, origS)
}

func init() {
	opExec["asset"] = func([]string) string { return "ok" }
	opExec["rep"] = func([]string) string { return "ok" }
	opExec["seg"] = execSeg
}

var _ = http.StatusOK

var audioFrameRe = regexp.MustCompile(`-a-frame-(\d+)$`)

// audioSegLine prints number, decode time, frame count and (for generated assets, whose frames carry a counter)
// the identity of every frame as ranges of global VoD frame indices.
func audioSegLine(body []byte, va *app.VerifAsset, vr *app.VerifRep) string {
	rf := vodFiles(va, vr)
	f, err := mp4.DecodeFileSR(bits.NewFixedSliceReader(body))
	if err != nil || len(f.Segments) == 0 || len(f.Segments[0].Fragments) == 0 {
		return "200 unparsable"
	}
	var idx []int
	n := 0
	ident := strings.HasPrefix(va.AssetPath, "gen_")
	fr0 := f.Segments[0].Fragments[0]
	for _, seg := range f.Segments {
		for _, fr := range seg.Fragments {
			fss, err := fr.GetFullSamples(rf.trex)
			if err != nil {
				return "200 unparsable"
			}
			for _, s := range fss {
				n++
				if ident {
					m := audioFrameRe.FindSubmatch(s.Data)
					if m == nil {
						idx = append(idx, -1)
					} else {
						v, _ := strconv.Atoi(string(m[1]))
						idx = append(idx, v)
					}
				}
			}
		}
	}
	fs := "?"
	if ident {
		fs = rangesOf(idx)
	}
	return fmt.Sprintf("200 nr=%d tfdt=%d n=%d frames=%s", fr0.Moof.Mfhd.SequenceNumber, fr0.Moof.Traf.Tfdt.BaseMediaDecodeTime(), n, fs)
}

func rangesOf(l []int) string {
	var parts []string
	for i := 0; i < len(l); {
		j := i
		for j+1 < len(l) && l[j+1] == l[j]+1 {
			j++
		}
		parts = append(parts, fmt.Sprintf("%d-%d", l[i], l[j]))
		i = j + 1
	}
	return strings.Join(parts, ",")
}
