package main

// C17, renumbered channels: op `renum <startNr> <track:seqIn:dts;…>` feeds a fresh receiver channel (tsbd 30 s) with the
// init segments of `v` (master video, 90 kHz, 2 s segments) and `a` (audio, 48 kHz) and then the uploads in the given
// order, waiting after each for the channel goroutine; per upload it reports the file that appeared or changed:
// `nr@tfdt`.

import (
	"bytes"
	"context"
	"crypto/sha256"
	"fmt"
	"os"
	"path/filepath"
	"regexp"
	"strconv"
	"strings"
	"time"

	recv "github.com/Dash-Industry-Forum/livesim2/cmd/cmaf-ingest-receiver/app"
	"github.com/Eyevinn/mp4ff/mp4"
)

func init() { opExec["renum"] = execRenum }

var mediaFileRe = regexp.MustCompile(`^(\d+)\.cmf[avt]$`)

func renumDirDigest(dir string) map[string][32]byte {
	out := map[string][32]byte{}
	ents, _ := os.ReadDir(dir)
	for _, e := range ents {
		if mediaFileRe.MatchString(e.Name()) {
			if b, err := os.ReadFile(filepath.Join(dir, e.Name())); err == nil {
				out[e.Name()] = sha256.Sum256(b)
			}
		}
	}
	return out
}

func execRenum(a []string) string {
	if len(a) != 2 {
		return "bad-op"
	}
	startNr, err := strconv.Atoi(a[0])
	if err != nil || startNr < 0 {
		return "bad-op"
	}
	vInit, e1 := readAsset("testpic_2s/V300/init.mp4")
	aInit, e2 := readAsset("testpic_2s/A48/init.mp4")
	if e1 != nil || e2 != nil {
		return "bad-op"
	}
	dir, err := os.MkdirTemp(workDir(), "c17renum")
	if err != nil {
		return "bad-op"
	}
	defer os.RemoveAll(dir)
	ctx, cancel := context.WithCancel(context.Background())
	defer cancel()
	cfg := recv.GetEmptyConfig()
	cfg.Channels = append(cfg.Channels, recv.ChannelConfig{Name: "rn", StartNr: startNr})
	h, err := recv.VerifNewRouter(ctx, dir, 30, 0, cfg, false)
	if err != nil {
		return "bad-op"
	}
	if code, p := c19Put(h, c19Upload{"/upload/rn/v/init.cmfv", vInit}); code >= 300 || p != "" {
		return fmt.Sprintf("init %d %s", code, p)
	}
	if code, p := c19Put(h, c19Upload{"/upload/rn/a/init.cmfa", aInit}); code >= 300 || p != "" {
		return fmt.Sprintf("init %d %s", code, p)
	}
	var outs []string
	nMaster, started, prevMaster := 0, false, uint64(0)
	for i, u := range strings.Split(a[1], ";") {
		f := strings.Split(u, ":")
		if len(f) != 3 || (f[0] != "v" && f[0] != "a") {
			return "bad-op"
		}
		seq, e1 := strconv.ParseUint(f[1], 10, 32)
		dts, e2 := strconv.ParseUint(f[2], 10, 63)
		if e1 != nil || e2 != nil {
			return "bad-op"
		}
		src, ext := "testpic_2s/V300/%d.m4s", ".cmfv"
		if f[0] == "a" {
			src, ext = "testpic_2s/A48/%d.m4s", ".cmfa"
		}
		b, err := readAsset(fmt.Sprintf(src, i%4+1))
		if err != nil {
			return "bad-op"
		}
		mf, err := mp4.DecodeFile(bytes.NewReader(b))
		if err != nil {
			return "bad-op"
		}
		fr := mf.Segments[0].Fragments[0]
		fr.Moof.Mfhd.SequenceNumber = uint32(seq)
		fr.Moof.Traf.Tfdt.SetBaseMediaDecodeTime(dts)
		var buf bytes.Buffer
		_ = mf.Segments[0].Encode(&buf)
		trDir := filepath.Join(dir, "rn", f[0])
		before := renumDirDigest(trDir)
		code, p := c19Put(h, c19Upload{fmt.Sprintf("/upload/rn/%s/%d%s", f[0], seq, ext), buf.Bytes()})
		time.Sleep(25 * time.Millisecond) // the channel goroutine (start of the channel, MPD)
		if f[0] == "v" && !started {
			nMaster++
			if nMaster == 2 && seq == prevMaster+1 {
				// the channel starts now: its first MPD is written by the channel goroutine (wait for it on a loaded machine)
				waitFor(3*time.Second, func() bool {
					_, err := os.Stat(filepath.Join(dir, "rn", "manifest.mpd"))
					return err == nil
				})
				started = true
			} else if nMaster >= 2 {
				nMaster = 1
			}
			prevMaster = seq
		}
		if p != "" {
			outs = append(outs, "PANIC")
			continue
		}
		if code >= 300 {
			outs = append(outs, strconv.Itoa(code))
			continue
		}
		after := renumDirDigest(trDir)
		item := "?"
		for name, hsh := range after {
			if old, ok := before[name]; !ok || old != hsh {
				sb, _ := os.ReadFile(filepath.Join(trDir, name))
				t := "?"
				if sf, err := mp4.DecodeFile(bytes.NewReader(sb)); err == nil && len(sf.Segments) > 0 && len(sf.Segments[0].Fragments) > 0 {
					t = strconv.FormatUint(sf.Segments[0].Fragments[0].Moof.Traf.Tfdt.BaseMediaDecodeTime(), 10)
				}
				item = mediaFileRe.FindStringSubmatch(name)[1] + "@" + t
			}
		}
		outs = append(outs, item)
	}
	return strings.Join(outs, " ")
}

// genRenum: channels whose first master segment is on / off the segment grid and numbered by time or not, audio cut at
// frame boundaries before and after the grid point, with and without a configured start number.
func genRenum(c *Ctx) {
	r := c.Rng
	for i := 0; i < c.N(40, 400); i++ {
		idx0 := uint64(r.Pick(1, 5, 101, 5000, 894000000))
		off := uint64(r.Pick(0, 0, 9000, 45000, 90000, 179999, 1, 89999, 90001))
		seq0 := idx0
		if r.Intn(2) == 0 {
			seq0 = uint64(r.Pick(8090, 300, 77, 1, 0))
		}
		startNr := r.Pick(0, 0, 0, 3, 100)
		n := r.Range(3, 6)
		var ups []string
		for k := 0; k < n; k++ {
			vd := (idx0+uint64(k))*180000 + off
			ups = append(ups, fmt.Sprintf("v:%d:%d", seq0+uint64(k), vd))
			// audio: the same instant in 48 kHz, cut at the frame boundary before it, after it, or a few frames off
			ad := vd * 48000 / 90000
			switch r.Intn(4) {
			case 0:
				ad = ad / 1024 * 1024
			case 1:
				ad = (ad + 1023) / 1024 * 1024
			case 2:
				ad = ad/1024*1024 + uint64(r.Range(0, 20))*1024
			default:
				if ad >= 10*1024 {
					ad = ad/1024*1024 - uint64(r.Range(0, 10))*1024
				}
			}
			if r.Intn(6) != 0 {
				ups = append(ups, fmt.Sprintf("a:%d:%d", seq0+uint64(k), ad))
			}
		}
		c.Emit(fmt.Sprintf("renum %d %s", startNr, strings.Join(ups, ";")), off != 0 || seq0 != idx0)
		c.Count("renum-ops")
	}
}
