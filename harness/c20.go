package main

// C20: request limiter — op `lim <max> <intervalMs> <cidr,..|-> <t@ip;t@ip;...>`
// output per event: nr,maxNr,ok,Count(ip),EndTime-start(ms),middlewareStatus(0=next|429) joined by ';'

import (
	"fmt"
	"net"
	"net/http"
	"net/http/httptest"
	"sort"
	"strconv"
	"strings"
	"sync"
	"time"

	"github.com/Dash-Industry-Forum/livesim2/cmd/livesim2/app"
)

type limEv struct {
	t  int64
	ip string
}

func parseLimOp(a []string) (max int, itvl int64, blocks string, evs []limEv, ok bool) {
	if len(a) != 4 {
		return
	}
	max, err := strconv.Atoi(a[0])
	if err != nil {
		return
	}
	itvl, err = strconv.ParseInt(a[1], 10, 64)
	if err != nil {
		return
	}
	if a[2] != "-" {
		blocks = a[2]
	}
	if a[3] != "-" {
		for _, e := range strings.Split(a[3], ";") {
			p := strings.SplitN(e, "@", 2)
			if len(p) != 2 {
				return
			}
			t, err := strconv.ParseInt(p[0], 10, 64)
			if err != nil {
				return
			}
			evs = append(evs, limEv{t, p[1]})
		}
	}
	return max, itvl, blocks, evs, true
}

var limStart = time.Date(2024, 1, 1, 0, 0, 0, 0, time.UTC)

type limOut struct {
	nr, maxNr int
	ok        bool
	count     int
	end       int64
	status    int
}

func runLim(max int, itvl int64, blocks string, evs []limEv) ([]limOut, error) {
	il, err := app.NewIPRequestLimiter(max, time.Duration(itvl)*time.Millisecond, limStart, blocks, "")
	if err != nil {
		return nil, err
	}
	var outs []limOut
	for _, e := range evs {
		now := limStart.Add(time.Duration(e.t) * time.Millisecond)
		nr, maxNr, ok := il.Inc(now, e.ip)
		st := 0
		if !ok {
			st = 429
		}
		outs = append(outs, limOut{nr, maxNr, ok, il.Count(e.ip), il.EndTime().Sub(limStart).Milliseconds(), st})
	}
	return outs, nil
}

func init() {
	opExec["lim"] = func(a []string) string {
		max, itvl, blocks, evs, ok := parseLimOp(a)
		if !ok {
			return "bad-op"
		}
		outs, err := runLim(max, itvl, blocks, evs)
		if err != nil {
			return "err-cidr"
		}
		var parts []string
		for _, o := range outs {
			b := 0
			if o.ok {
				b = 1
			}
			parts = append(parts, fmt.Sprintf("%d,%d,%d,%d,%d,%d", o.nr, o.maxNr, b, o.count, o.end, o.status))
		}
		return strings.Join(parts, ";")
	}
	generators["C20"] = genC20
}

var limV4 = []string{"1.2.3.4", "10.0.0.1", "192.168.5.7", "192.168.5.200", "192.168.6.1", "127.0.0.1", "8.8.8.8", "172.16.31.254"}
var limOther = []string{"2001:db8::1", "::1", "fe80::1", "1.2.3.4,5.6.7.8", "garbage", "001.2.3.4",
	"::ffff:192.168.5.7", "::ffff:c0a8:0507", "::FFFF:10.1.2.3", "::ffff:8.8.8.8", "::ffff:808:808", "::ffff:1.2.3", "::ffff:1.2.3.4"}
var limBlocks = []string{"192.168.5.0/24", "10.0.0.0/8", "127.0.0.3/24", "0.0.0.0/0", "8.8.8.8/32", "172.16.0.0/12", "192.168.5.128/25"}

func genC20(c *Ctx) {
	r := c.Rng
	n := c.N(1200, 30000)
	for i := 0; i < n; i++ {
		max := r.Pick(0, 1, 2, 3, 5, 10)
		itvl := int64(r.Pick(1, 10, 100, 1000, 86400000))
		var bl []string
		for k := r.Intn(3); k > 0; k-- {
			bl = append(bl, limBlocks[r.Intn(len(limBlocks))])
		}
		blocks := "-"
		if len(bl) > 0 {
			blocks = strings.Join(bl, ",")
		}
		nev := r.Range(1, 40)
		nIps := r.Range(1, 4)
		pool := make([]string, nIps)
		for k := range pool {
			if r.Intn(6) == 0 {
				pool[k] = limOther[r.Intn(len(limOther)-0)]
				// the model white-lists dotted quads only; keep IPv4-mapped / exotic syntaxes for the monitors
			} else {
				pool[k] = limV4[r.Intn(len(limV4))]
			}
		}
		t := int64(0)
		var evs []string
		var evl []limEv
		for k := 0; k < nev; k++ {
			switch r.Intn(10) {
			case 0:
				t += itvl // exactly the interval: no reset (strict >)
			case 1:
				t += itvl + 1
			case 2:
				t += itvl*2 + int64(r.Intn(7)) // long idle gaps
			case 3:
				t += itvl*7/2 + 1
			case 4, 5:
				t += int64(r.Intn(3))
			default:
				// same instant or small step
				t += int64(r.Intn(int(itvl/4) + 1))
			}
			ip := pool[r.Intn(nIps)]
			evs = append(evs, fmt.Sprintf("%d@%s", t, ip))
			evl = append(evl, limEv{t, ip})
		}
		line := fmt.Sprintf("lim %d %d %s %s", max, itvl, blocks, strings.Join(evs, ";"))
		c.Emit(line, nev >= 3)
		// ---- monitor: the property, evaluated on the implementation's answers with an independent log ----
		if blocks == "-" {
			blocks = ""
		}
		outs, err := runLim(max, itvl, blocks, evl)
		if err != nil {
			c.Violate("cidr", "valid CIDR list refused: "+err.Error(), []string{line}, nil)
			continue
		}
		c20Monitor(c, line, max, itvl, blocks, evl, outs)
	}
	c20Concurrent(c)
	c20Middleware(c)
	c20Rollover(c)
}

func refWhitelisted(blocks string, ip string) bool {
	if blocks == "-" || blocks == "" {
		return false
	}
	p := net.ParseIP(ip)
	for _, b := range strings.Split(blocks, ",") {
		_, n, err := net.ParseCIDR(b)
		if err == nil && n.Contains(p) {
			return true
		}
	}
	return false
}

// c20Monitor checks quota / header / reset / whitelist clauses against a plain request log.
func c20Monitor(c *Ctx, line string, max int, itvl int64, blocks string, evs []limEv, outs []limOut) {
	reset := int64(0)
	hist := map[string]int{}
	for i, e := range evs {
		if e.t-reset > itvl {
			reset = e.t
			hist = map[string]int{}
		}
		hist[e.ip]++
		j := hist[e.ip]
		o := outs[i]
		wl := refWhitelisted(blocks, e.ip)
		switch {
		case o.nr != j:
			c.Violate("quota-nr", fmt.Sprintf("event %d: the %d-th request of %s since the last reset was numbered %d", i, j, e.ip, o.nr), []string{line}, nil)
			return
		case !wl && o.ok != (j <= max):
			c.Violate("quota-pass", fmt.Sprintf("event %d: request %d of %s (max %d) passed=%v", i, j, e.ip, max, o.ok), []string{line}, nil)
			return
		case wl && (!o.ok || o.maxNr != -1):
			c.Violate("whitelist", fmt.Sprintf("event %d: white-listed %s limited (ok=%v max=%d)", i, e.ip, o.ok, o.maxNr), []string{line}, nil)
			return
		case !wl && o.maxNr != max:
			c.Violate("maxnr", fmt.Sprintf("event %d: reported max %d, configured %d", i, o.maxNr, max), []string{line}, nil)
			return
		case o.count != j:
			c.Violate("count", fmt.Sprintf("event %d: Count=%d after request %d", i, o.count, j), []string{line}, nil)
			return
		case o.end != reset+itvl:
			c.Violate("endtime", fmt.Sprintf("event %d: EndTime=%d, last reset %d + interval %d", i, o.end, reset, itvl), []string{line}, nil)
			return
		}
	}
}

// c20Concurrent: concurrent Inc callers inside one interval must receive each number 1..k exactly once.
func c20Concurrent(c *Ctx) {
	rounds := c.N(20, 400)
	for rd := 0; rd < rounds; rd++ {
		g := c.Rng.Range(2, 16)
		per := c.Rng.Range(1, 50)
		max := c.Rng.Range(0, g*per)
		il, _ := app.NewIPRequestLimiter(max, time.Hour, limStart, "", "")
		var wg sync.WaitGroup
		res := make([][]int, g)
		passed := make([]int, g)
		for i := 0; i < g; i++ {
			wg.Add(1)
			go func(i int) {
				defer wg.Done()
				for k := 0; k < per; k++ {
					nr, _, ok := il.Inc(limStart.Add(time.Second), "9.9.9.9")
					res[i] = append(res[i], nr)
					if ok {
						passed[i]++
					}
					if k%7 == 0 {
						_ = il.Count("9.9.9.9")
					}
				}
			}(i)
		}
		wg.Wait()
		var all []int
		np := 0
		for i := range res {
			all = append(all, res[i]...)
			np += passed[i]
		}
		sort.Ints(all)
		okSeq := true
		for i, v := range all {
			if v != i+1 {
				okSeq = false
			}
		}
		c.Count("concurrent-rounds")
		want := max
		if want > g*per {
			want = g * per
		}
		if !okSeq || np != want {
			c.Violate("concurrent", fmt.Sprintf("%d goroutines x %d Inc: numbers not 1..k exactly once (%v) or passed %d != %d", g, per, okSeq, np, want),
				[]string{fmt.Sprintf("# concurrent g=%d per=%d max=%d", g, per, max)}, nil)
			return
		}
	}
}

// c20Middleware: the real middleware (wall clock, long interval): 429 exactly after max, header counts 1..k.
func c20Middleware(c *Ctx) {
	for rd := 0; rd < c.N(10, 100); rd++ {
		max := c.Rng.Range(0, 6)
		il, _ := app.NewIPRequestLimiter(max, time.Hour, time.Now(), "192.168.5.0/24,2001:db8:ffff::/48", "")
		called := 0
		h := app.NewLimiterMiddleware("X-Lim", il)(http.HandlerFunc(func(w http.ResponseWriter, r *http.Request) { called++ }))
		cnt := map[string]int{}
		for k := 0; k < 25; k++ {
			// (IPv6 too: addresses that differ in the last group only, all-digit and hexadecimal groups, a white-listed one)
			ip := c.Rng.PickS("1.2.3.4", "5.6.7.8", "192.168.5.9", "2001:db8::1", "2001:db8::2", "2001:db8::25", "2001:db8::a", "2001:db8:ffff::10", "::1", "1.2.3.40")
			req := httptest.NewRequest("GET", "/x", nil)
			if c.Rng.Bool() {
				// one address, written the ways proxies write it: other spellings of an IPv6 address, a blank in front,
				// the list form "client, proxy1, proxy2" — it is one client with one quota
				sp := ip
				switch c.Rng.Intn(5) {
				case 0:
					if p := net.ParseIP(ip); p != nil && strings.Contains(ip, ":") {
						b := p.To16()
						sp = fmt.Sprintf("%x:%x:%x:%x:%x:%x:%x:%x", uint16(b[0])<<8|uint16(b[1]), uint16(b[2])<<8|uint16(b[3]), uint16(b[4])<<8|uint16(b[5]), uint16(b[6])<<8|uint16(b[7]),
							uint16(b[8])<<8|uint16(b[9]), uint16(b[10])<<8|uint16(b[11]), uint16(b[12])<<8|uint16(b[13]), uint16(b[14])<<8|uint16(b[15]))
					}
				case 1:
					sp = strings.ToUpper(ip)
				case 2:
					sp = ip + ", 10.0.0.1, 10.0.0.2"
				case 3:
					sp = " " + ip
				}
				req.Header.Set("X-Forwarded-For", sp)
			} else if strings.Contains(ip, ":") {
				req.RemoteAddr = "[" + ip + "]:1234"
			} else {
				req.RemoteAddr = ip + ":1234"
			}
			rec := httptest.NewRecorder()
			before := called
			h.ServeHTTP(rec, req)
			cnt[ip]++
			wl := strings.HasPrefix(ip, "192.168.5.") || strings.HasPrefix(ip, "2001:db8:ffff:")
			wantPass := wl || cnt[ip] <= max
			wantMax := max
			if wl {
				wantMax = -1
			}
			wantHdr := fmt.Sprintf("%d (max %d)", cnt[ip], wantMax)
			passed := called == before+1
			c.Count("middleware-requests")
			if passed != wantPass || (!passed && rec.Code != 429) || rec.Header().Get("X-Lim") != wantHdr {
				c.Violate("middleware", fmt.Sprintf("request %d of %s max %d: passed=%v code=%d header=%q want pass=%v header=%q",
					cnt[ip], ip, max, passed, rec.Code, rec.Header().Get("X-Lim"), wantPass, wantHdr),
					[]string{fmt.Sprintf("# middleware max=%d ip=%s n=%d", max, ip, cnt[ip])}, nil)
				return
			}
		}
	}
}
