package main

// Synthetic VoD assets (DESIGN.md §7): small layouts that the bundled assets do not cover — 1001-based and 1.92 s
// segments, alternating / irregular durations, $Time$ addressing, audio loops shorter / longer than the video loop,
// stpp text with known timestamps, thumbnails, 12 s segments, a single-segment asset.  Written with mp4ff into the
// run's work directory together with a copy of the bundled assets; the server under test loads them like any asset.

import (
	"bytes"
	"fmt"
	"io"
	"os"
	"path/filepath"
	"strings"

	"github.com/Eyevinn/mp4ff/mp4"
)

type genLayout struct {
	name       string
	videoT     int
	frameDur   int
	videoSegs  []int  // duration of each video segment in ticks (multiples of frameDur)
	timeURI    bool   // SegmentTimeline + $Time$ for video
	audioCodec string // "aac" (1024) | "ac3" (1536) | ""
	audioSegs  []int  // frames per audio segment
	audioT     int    // audio timescale = sampling rate (0 = 48000)
	merged2    bool   // a second video track V2 whose segments are pairs of V1's (half as many segments per loop)
	notFor     string // properties (space separated) whose generators assume one segment grid for all representations
	onlyFor    string // the asset exists only for these properties' generators
	stppT      int    // timescale of the stpp text track (0 = 1000)
	shortLast  int    // the last sample of the first video segment is this many ticks shorter (the file ends before the next starts)
	stpp       bool   // stpp text track at timescale 1000 following the video grid (needs ms-integral video durations)
	thumbs     bool   // thumbnail track (needs uniform video durations)
	textShort  int    // number of trailing video segments without a text segment (an asset that must be left out)
	vodNrBase  int    // the VoD files are numbered from 1+vodNrBase (SegmentTemplate@startNumber of the VoD MPD): -1 = from 0
	audio2     string // a second audio AdaptationSet A2 with this codec ("aac" | "ac3"), same segment grid in its own frames
	audio2Segs []int  // frames per segment of A2
	audioID    string // id of the first audio representation ("" = A1); "AV1" has the video id V1 as a suffix
}

// curProp is the property whose generator is running ("" in the exec / child modes)
var curProp string

var genLayouts = []genLayout{
	{name: "gen_ntsc", videoT: 30000, frameDur: 1001, videoSegs: []int{60060, 60060, 60060, 60060}, audioCodec: "aac", audioSegs: []int{94, 94, 94, 94}, stpp: true},
	// two video tracks with different segment durations in the same loop (4 x 2 s and 2 x 4 s): the per-representation
	// lookups (C01 .. C09, C15); the fault-injection, SCTE-35 and ingest generators walk one grid for all representations
	{name: "gen_two", videoT: 90000, frameDur: 3600, videoSegs: []int{180000, 180000, 180000, 180000}, audioCodec: "aac", audioSegs: []int{94, 94, 94, 93}, merged2: true, notFor: "C13 C14 C16"},
	{name: "gen_192", videoT: 12800, frameDur: 512, videoSegs: []int{24576, 24576, 24576, 24576, 24576}, audioCodec: "aac", audioSegs: []int{90, 90, 90, 90, 90}, stpp: true, thumbs: true},
	{name: "gen_alt", videoT: 90000, frameDur: 3600, videoSegs: []int{360000, 720000, 360000, 720000}, timeURI: true, audioCodec: "aac", audioSegs: []int{281, 281, 281, 280}},
	{name: "gen_irreg", videoT: 1000, frameDur: 100, videoSegs: []int{1000, 2500, 1500, 3000, 2000}, audioCodec: "ac3", audioSegs: []int{63, 63, 62, 63, 63}, stpp: true},
	{name: "gen_12s", videoT: 25, frameDur: 1, videoSegs: []int{300, 300}, audioCodec: "aac", audioSegs: []int{563, 562}},
	{name: "gen_one", videoT: 48000, frameDur: 1920, videoSegs: []int{192000}, audioCodec: "aac", audioSegs: []int{187}, thumbs: true},
	// 29.97 fps video with 44.1 kHz audio: segment starts that are no whole number of audio ticks
	{name: "gen_ntsc441", videoT: 90000, frameDur: 3003, videoSegs: []int{180180, 180180, 180180, 180180}, audioCodec: "aac", audioSegs: []int{87, 86, 86, 86}, audioT: 44100},
	// the first segment file ends before the second starts (a packager's wrong last-sample duration): the loaded table
	// must be contiguous all the same
	{name: "gen_gap", videoT: 90000, frameDur: 3600, videoSegs: []int{180000, 180000, 180000}, audioCodec: "aac", audioSegs: []int{94, 94, 94}, shortLast: 600, onlyFor: "C15"},
	// VoD files numbered from 0 and from 7 (SegmentTemplate@startNumber of the VoD MPD other than 1)
	{name: "gen_nr0", videoT: 90000, frameDur: 3600, videoSegs: []int{180000, 180000, 180000}, audioCodec: "aac", audioSegs: []int{94, 94, 94}, thumbs: true, stpp: true, vodNrBase: -1, onlyFor: "C01 C02 C04 C15"},
	{name: "gen_nr7", videoT: 90000, frameDur: 3600, videoSegs: []int{180000, 360000, 180000}, audioCodec: "aac", audioSegs: []int{94, 188, 93}, vodNrBase: 6, onlyFor: "C01 C02 C04 C15"},
	// two audio AdaptationSets with different codecs, frame durations (1024 / 1536) and segment grids
	{name: "gen_2aud", videoT: 90000, frameDur: 3600, videoSegs: []int{180000, 180000, 180000, 180000}, audioCodec: "aac", audioSegs: []int{94, 94, 94, 93}, audio2: "ac3", audio2Segs: []int{63, 62, 63, 62}, onlyFor: "C02 C03 C04"},
	// a representation id that ends with another representation's id (AV1 / V1)
	{name: "gen_sfx", videoT: 90000, frameDur: 3600, videoSegs: []int{180000, 180000, 180000}, audioCodec: "aac", audioSegs: []int{94, 94, 94}, audioID: "AV1", onlyFor: "C01 C04 C07"},
	// irregular durations whose first segment has exactly the mean duration, $Time$ addressing
	{name: "gen_mean", videoT: 90000, frameDur: 3600, videoSegs: []int{180000, 270000, 90000, 180000}, timeURI: true, audioCodec: "aac", audioSegs: []int{94, 141, 47, 93}, onlyFor: "C01 C02 C04"},
	{name: "gen_short", videoT: 15360, frameDur: 512, videoSegs: []int{15360, 15360, 15360}, audioCodec: "aac", audioSegs: []int{47, 47, 46}, stpp: true, stppT: 90000},
}

func bundledRoot() string {
	repo := os.Getenv("VERIF_REPO")
	if repo == "" {
		repo = "/repo"
	}
	return repo + "/cmd/livesim2/app/testdata/assets"
}

func copyTree(src, dst string) error {
	return filepath.Walk(src, func(p string, info os.FileInfo, err error) error {
		if err != nil {
			return err
		}
		rel, _ := filepath.Rel(src, p)
		target := filepath.Join(dst, rel)
		if info.IsDir() {
			return os.MkdirAll(target, 0o755)
		}
		in, err := os.Open(p)
		if err != nil {
			return err
		}
		defer in.Close()
		out, err := os.Create(target)
		if err != nil {
			return err
		}
		defer out.Close()
		_, err = io.Copy(out, in)
		return err
	})
}

// retimedInit reads a bundled init segment and sets the media timescale.
func retimedInit(rel string, timescale int) ([]byte, uint32, error) {
	b, err := os.ReadFile(bundledRoot() + "/" + rel)
	if err != nil {
		return nil, 0, err
	}
	f, err := mp4.DecodeFile(bytes.NewReader(b))
	if err != nil {
		return nil, 0, err
	}
	f.Init.Moov.Trak.Mdia.Mdhd.Timescale = uint32(timescale)
	if f.Init.Moov.Mvex != nil && f.Init.Moov.Mvex.Trex != nil {
		f.Init.Moov.Mvex.Trex.DefaultSampleDuration = 0
	}
	var buf bytes.Buffer
	if err := f.Init.Encode(&buf); err != nil {
		return nil, 0, err
	}
	return buf.Bytes(), f.Init.Moov.Trak.Tkhd.TrackID, nil
}

func writeSeg(path string, seqNr, trackID uint32, decodeTime uint64, samples []mp4.FullSample) error {
	seg := mp4.NewMediaSegment()
	frag, err := mp4.CreateFragment(seqNr, trackID)
	if err != nil {
		return err
	}
	seg.AddFragment(frag)
	t := decodeTime
	for _, s := range samples {
		s.DecodeTime = t
		frag.AddFullSample(s)
		t += uint64(s.Dur)
	}
	var buf bytes.Buffer
	if err := seg.Encode(&buf); err != nil {
		return err
	}
	return os.WriteFile(path, buf.Bytes(), 0o644)
}

func ttmlDoc(beginMS, endMS int, text string) []byte {
	return []byte(fmt.Sprintf(`<?xml version="1.0" encoding="UTF-8"?>
<tt xmlns="http://www.w3.org/ns/ttml" xml:lang="en"><body><div><p begin="%s" end="%s">%s</p></div></body></tt>`,
		msToTs(beginMS), msToTs(endMS), text))
}

func msToTs(ms int) string {
	return fmt.Sprintf("%02d:%02d:%02d.%03d", ms/3600000, ms/60000%60, ms/1000%60, ms%1000)
}

// genAsset writes one synthetic asset under root.
func genAsset(root string, L genLayout) error {
	dir := filepath.Join(root, L.name)
	aID := "A1"
	if L.audioID != "" {
		aID = L.audioID
	}
	for _, d := range []string{"V1", "V2", aID, "A2", "T1", "thumbs"} {
		_ = os.MkdirAll(filepath.Join(dir, d), 0o755)
	}
	nb := L.vodNrBase
	vInit, vTrack, err := retimedInit("testpic_2s/V300/init.mp4", L.videoT)
	if err != nil {
		return err
	}
	if err := os.WriteFile(filepath.Join(dir, "V1/init.mp4"), vInit, 0o644); err != nil {
		return err
	}
	totalTicks := 0
	t := uint64(0)
	var timeline strings.Builder
	frameNo := 0
	var pair []mp4.FullSample
	var pairStart uint64
	for i, d := range L.videoSegs {
		var samples []mp4.FullSample
		for k := 0; k < d/L.frameDur; k++ {
			flags := mp4.NonSyncSampleFlags
			if k == 0 {
				flags = mp4.SyncSampleFlags
			}
			data := []byte(fmt.Sprintf("%s-v-frame-%06d", L.name, frameNo))
			samples = append(samples, mp4.FullSample{Sample: mp4.Sample{Flags: flags, Dur: uint32(L.frameDur), Size: uint32(len(data))}, Data: data})
			frameNo++
		}
		if i == 0 && L.shortLast > 0 && len(samples) > 0 {
			samples[len(samples)-1].Dur -= uint32(L.shortLast)
		}
		name := fmt.Sprintf("V1/%d.m4s", i+1+nb)
		if L.timeURI {
			name = fmt.Sprintf("V1/t%d.m4s", t)
		}
		if err := writeSeg(filepath.Join(dir, name), uint32(i+1), vTrack, t, samples); err != nil {
			return err
		}
		if L.merged2 {
			if i%2 == 0 {
				pair, pairStart = append([]mp4.FullSample(nil), samples...), t
			} else {
				pair = append(pair, samples...)
				if err := writeSeg(filepath.Join(dir, fmt.Sprintf("V2/%d.m4s", i/2+1)), uint32(i/2+1), vTrack, pairStart, pair); err != nil {
					return err
				}
			}
		}
		fmt.Fprintf(&timeline, `<S t="%d" d="%d"/>`, t, d)
		t += uint64(d)
		totalTicks += d
	}
	if L.merged2 {
		if err := os.WriteFile(filepath.Join(dir, "V2/init.mp4"), vInit, 0o644); err != nil {
			return err
		}
	}
	durS := float64(totalTicks) / float64(L.videoT)
	var asets strings.Builder
	if L.timeURI {
		fmt.Fprintf(&asets, `<AdaptationSet contentType="video" mimeType="video/mp4" segmentAlignment="true" startWithSAP="1">
<SegmentTemplate timescale="%d" initialization="$RepresentationID$/init.mp4" media="$RepresentationID$/t$Time$.m4s"><SegmentTimeline>%s</SegmentTimeline></SegmentTemplate>
<Representation id="V1" codecs="avc1.64001e" bandwidth="300000" width="640" height="360"/></AdaptationSet>`, L.videoT, timeline.String())
	} else {
		fmt.Fprintf(&asets, `<AdaptationSet contentType="video" mimeType="video/mp4" segmentAlignment="true" startWithSAP="1">
<SegmentTemplate startNumber="%d" timescale="%d" duration="%d" initialization="$RepresentationID$/init.mp4" media="$RepresentationID$/$Number$.m4s"/>
<Representation id="V1" codecs="avc1.64001e" bandwidth="300000" width="640" height="360"/></AdaptationSet>`, 1+nb, L.videoT, L.videoSegs[0])
	}
	if L.merged2 {
		fmt.Fprintf(&asets, `<AdaptationSet contentType="video" mimeType="video/mp4" segmentAlignment="true" startWithSAP="1">
<SegmentTemplate startNumber="1" timescale="%d" duration="%d" initialization="$RepresentationID$/init.mp4" media="$RepresentationID$/$Number$.m4s"/>
<Representation id="V2" codecs="avc1.64001e" bandwidth="600000" width="640" height="360"/></AdaptationSet>`, L.videoT, 2*L.videoSegs[0])
	}
	type audSpec struct {
		id, codec string
		segs      []int
	}
	var auds []audSpec
	if L.audioCodec != "" {
		auds = append(auds, audSpec{aID, L.audioCodec, L.audioSegs})
	}
	if L.audio2 != "" {
		auds = append(auds, audSpec{"A2", L.audio2, L.audio2Segs})
	}
	for ax, au := range auds {
		initRel, frame, codec := "testpic_2s/A48/init.mp4", 1024, "mp4a.40.2"
		if au.codec == "ac3" {
			initRel, frame, codec = "bbb_hevc_ac3_8s/audio_init.mp4", 1536, "ac-3"
		}
		audioT := L.audioT
		if audioT == 0 {
			audioT = 48000
		}
		aInit, aTrack, err := retimedInit(initRel, audioT)
		if err != nil {
			return err
		}
		if err := os.WriteFile(filepath.Join(dir, au.id+"/init.mp4"), aInit, 0o644); err != nil {
			return err
		}
		at := uint64(0)
		fr := 0
		for i, n := range au.segs {
			var samples []mp4.FullSample
			for k := 0; k < n; k++ {
				data := []byte(fmt.Sprintf("%s-a-frame-%06d", L.name, fr))
				samples = append(samples, mp4.FullSample{Sample: mp4.Sample{Flags: mp4.SyncSampleFlags, Dur: uint32(frame), Size: uint32(len(data))}, Data: data})
				fr++
			}
			if err := writeSeg(filepath.Join(dir, fmt.Sprintf("%s/%d.m4s", au.id, i+1+nb)), uint32(i+1), aTrack, at, samples); err != nil {
				return err
			}
			at += uint64(n * frame)
		}
		mpdT, mpdDur := audioT, nominalAudioDur(L, frame)
		if L.audioT != 0 && L.videoSegs[0]*audioT%L.videoT != 0 {
			// the nominal segment duration is no whole number of audio ticks: the template states it in the video timescale
			// (a $Number$ template's timescale need not be the media timescale)
			mpdT, mpdDur = L.videoT, L.videoSegs[0]
		}
		lang := "en"
		if ax == 1 {
			lang = "sv"
		}
		fmt.Fprintf(&asets, `<AdaptationSet contentType="audio" mimeType="audio/mp4" lang="%s" segmentAlignment="true" startWithSAP="1">
<SegmentTemplate startNumber="%d" timescale="%d" duration="%d" initialization="$RepresentationID$/init.mp4" media="$RepresentationID$/$Number$.m4s"/>
<Representation id="%s" codecs="%s" bandwidth="48000" audioSamplingRate="%d"/></AdaptationSet>`, lang, 1+nb, mpdT, mpdDur, au.id, codec, audioT)
	}
	if L.stpp {
		stppT := L.stppT
		if stppT == 0 {
			stppT = 1000
		}
		tInit, tTrack, err := retimedInit("testpic_2s/imsc1_txt_sv/init.mp4", stppT)
		if err != nil {
			return err
		}
		if err := os.WriteFile(filepath.Join(dir, "T1/init.mp4"), tInit, 0o644); err != nil {
			return err
		}
		tt := 0
		for i, d := range L.videoSegs {
			if i >= len(L.videoSegs)-L.textShort {
				break
			}
			ms := d * 1000 / L.videoT
			data := ttmlDoc(tt+ms/4, tt+ms*3/4, fmt.Sprintf("%s sub %d", L.name, i+1))
			s := []mp4.FullSample{{Sample: mp4.Sample{Flags: mp4.SyncSampleFlags, Dur: uint32(ms * stppT / 1000), Size: uint32(len(data))}, Data: data}}
			if err := writeSeg(filepath.Join(dir, fmt.Sprintf("T1/%d.m4s", i+1+nb)), uint32(i+1), tTrack, uint64(tt*stppT/1000), s); err != nil {
				return err
			}
			tt += ms
		}
		fmt.Fprintf(&asets, `<AdaptationSet contentType="text" mimeType="application/mp4" lang="en" segmentAlignment="true" startWithSAP="1">
<Role schemeIdUri="urn:mpeg:dash:role:2011" value="subtitle"/>
<SegmentTemplate startNumber="%d" timescale="%d" duration="%d" initialization="$RepresentationID$/init.mp4" media="$RepresentationID$/$Number$.m4s"/>
<Representation id="T1" codecs="stpp.ttml.im1t" bandwidth="1000"/></AdaptationSet>`, 1+nb, stppT, L.videoSegs[0]*stppT/L.videoT)
	}
	if L.thumbs {
		for i := range L.videoSegs {
			_ = os.WriteFile(filepath.Join(dir, fmt.Sprintf("thumbs/%d.jpg", i+1+nb)), []byte(fmt.Sprintf("\xff\xd8\xff%s-thumb-%d\xff\xd9", L.name, i+1)), 0o644)
		}
		fmt.Fprintf(&asets, `<AdaptationSet mimeType="image/jpeg" contentType="image">
<SegmentTemplate media="$RepresentationID$/$Number$.jpg" timescale="%d" duration="%d" startNumber="%d"/>
<Representation bandwidth="10000" id="thumbs" width="160" height="90"><EssentialProperty schemeIdUri="http://dashif.org/guidelines/thumbnail_tile" value="1x1"/></Representation></AdaptationSet>`,
			L.videoT, L.videoSegs[0], 1+nb)
	}
	mpd := fmt.Sprintf(`<?xml version="1.0" encoding="utf-8"?>
<MPD xmlns="urn:mpeg:dash:schema:mpd:2011" profiles="urn:mpeg:dash:profile:isoff-live:2011" minBufferTime="PT2S" type="static" mediaPresentationDuration="PT%.3fS">
<ProgramInformation><Title>%s (generated by /verif/harness)</Title></ProgramInformation>
<Period id="p0" start="PT0S">%s</Period></MPD>`, durS, L.name, asets.String())
	return os.WriteFile(filepath.Join(dir, "Manifest.mpd"), []byte(mpd), 0o644)
}

// buildVodRoot copies the bundled assets and adds the generated ones; returns the root directory.
func buildVodRoot() (string, error) {
	root := filepath.Join(workDir(), fmt.Sprintf("vod-%d", os.Getpid()))
	_ = os.RemoveAll(root)
	if err := copyTree(bundledRoot(), root); err != nil {
		return "", err
	}
	// an audio-only asset with two audio representations of different segment durations (4 x 2 s and 1 x 8 s, the bundled
	// audio tracks): which one is the reference must not depend on the server instance (only where instances are compared)
	if curProp == "C07" || curProp == "C15" || curProp == "" {
		ao := filepath.Join(root, "gen_audioonly")
		if err := copyTree(filepath.Join(bundledRoot(), "testpic_2s", "A48"), filepath.Join(ao, "A2")); err == nil {
			if err := copyTree(filepath.Join(bundledRoot(), "testpic_8s", "A48"), filepath.Join(ao, "A8")); err == nil {
				mpd := `<?xml version="1.0" encoding="utf-8"?>
<MPD xmlns="urn:mpeg:dash:schema:mpd:2011" profiles="urn:mpeg:dash:profile:isoff-live:2011" minBufferTime="PT2S" type="static" mediaPresentationDuration="PT8S">
<ProgramInformation><Title>gen_audioonly (generated by /verif/harness)</Title></ProgramInformation>
<Period id="p0" start="PT0S"><AdaptationSet contentType="audio" mimeType="audio/mp4" lang="en" segmentAlignment="true" startWithSAP="1">
<SegmentTemplate startNumber="1" timescale="48000" duration="96000" initialization="$RepresentationID$/init.mp4" media="$RepresentationID$/$Number$.m4s"/>
<Representation id="A2" codecs="mp4a.40.2" bandwidth="48000" audioSamplingRate="48000"/></AdaptationSet>
<AdaptationSet contentType="audio" mimeType="audio/mp4" lang="sv" segmentAlignment="true" startWithSAP="1">
<SegmentTemplate startNumber="1" timescale="48000" duration="384000" initialization="$RepresentationID$/init.mp4" media="$RepresentationID$/$Number$.m4s"/>
<Representation id="A8" codecs="mp4a.40.2" bandwidth="36997" audioSamplingRate="48000"/></AdaptationSet></Period></MPD>`
				_ = os.WriteFile(filepath.Join(ao, "Manifest.mpd"), []byte(mpd), 0o644)
			}
		}
	}
	// an asset inside the directory of another asset (as the WAVE vectors are organised): a request path under the inner
	// one also has the outer one as a prefix
	if curProp == "C07" || curProp == "C04" {
		if err := copyTree(filepath.Join(bundledRoot(), "testpic_8s"), filepath.Join(root, "nest")); err == nil {
			_ = copyTree(filepath.Join(bundledRoot(), "testpic_6s"), filepath.Join(root, "nest", "inner"))
		}
	}
	for _, L := range genLayouts {
		if curProp != "" && strings.Contains(" "+L.notFor+" ", " "+curProp+" ") {
			continue
		}
		if L.onlyFor != "" && !strings.Contains(" "+L.onlyFor+" ", " "+curProp+" ") {
			continue
		}
		if err := genAsset(root, L); err != nil {
			return "", fmt.Errorf("genAsset %s: %w", L.name, err)
		}
	}
	return root, nil
}

// nominalAudioDur is the SegmentTemplate@duration written for the audio AdaptationSet: the video segment duration in
// the audio timescale when that is a whole number (as in the bundled assets, where audio and video carry the same
// nominal duration), else the first audio segment's own duration.
func nominalAudioDur(L genLayout, frame int) int {
	audioT := L.audioT
	if audioT == 0 {
		audioT = 48000
	}
	if L.videoSegs[0]*audioT%L.videoT == 0 {
		return L.videoSegs[0] * audioT / L.videoT
	}
	return L.audioSegs[0] * frame
}
