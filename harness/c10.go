package main

// C10: advertised key ids, init segments, licences and ciphertext agree.
// Ops (vs. the Lean model of keys.go / handler_laurl.go): kid, k2k, key2kid, b64, unb64, lic.
// Monitors: MPD / init / licence / media round trip on a server with the DRM test configuration.

import (
	"bytes"
	"context"
	"crypto/md5"
	"encoding/base64"
	"encoding/hex"
	"encoding/json"
	"encoding/xml"
	"fmt"
	"net/http/httptest"
	"os"
	"path/filepath"
	"regexp"
	"strconv"
	"strings"
	"sync"

	"github.com/Dash-Industry-Forum/livesim2/cmd/livesim2/app"
	"github.com/Dash-Industry-Forum/livesim2/pkg/drm"
	"github.com/Eyevinn/mp4ff/bits"
	"github.com/Eyevinn/mp4ff/mp4"
)

func init() {
	generators["C10"] = genC10
	opExec["kid"] = func(a []string) string {
		if len(a) != 2 {
			return "bad-op"
		}
		return "ok " + app.VerifKidFromString(a[1])
	}
	opExec["k2k"] = func(a []string) string { return keyOp(a, app.VerifKidToKey) }
	opExec["key2kid"] = func(a []string) string { return keyOp(a, app.VerifKeyToKid) }
	opExec["b64"] = func(a []string) string {
		k, ok := hex16(a)
		if !ok {
			return "bad-op"
		}
		p := app.VerifPackBase64(k)
		back, err := app.VerifUnpackBase64(p)
		if err != nil {
			return "ok " + p + " err"
		}
		return "ok " + p + " " + hex.EncodeToString(back[:])
	}
	opExec["unb64"] = func(a []string) string {
		if len(a) != 1 {
			return "bad-op"
		}
		s := a[0]
		if s == "-" {
			s = ""
		}
		k, err := app.VerifUnpackBase64(s)
		if err != nil {
			return "err"
		}
		return "ok " + hex.EncodeToString(k[:])
	}
	opExec["lic"] = execLic
}

func hex16(a []string) (k [16]byte, ok bool) {
	if len(a) != 1 {
		return k, false
	}
	b, err := hex.DecodeString(a[0])
	if err != nil || len(b) != 16 {
		return k, false
	}
	copy(k[:], b)
	return k, true
}

func keyOp(a []string, f func([16]byte) ([16]byte, bool)) string {
	k, ok := hex16(a)
	if !ok {
		return "bad-op"
	}
	r, ok := f(k)
	if !ok {
		return "PANIC"
	}
	return "ok " + hex.EncodeToString(r[:])
}

type licResp struct {
	Keys []struct {
		Kty string `json:"kty"`
		K   string `json:"k"`
		Kid string `json:"kid"`
	} `json:"keys"`
	Type string `json:"type"`
}

func postLicence(s *app.Server, path string, kids []string) (int, licResp, string) {
	body, _ := json.Marshal(map[string]any{"kids": kids, "type": "temporary"})
	req := httptest.NewRequest("POST", path, bytes.NewReader(body))
	req.Header.Set("Content-Type", "application/json")
	res := serveGuarded(s.Router, req)
	var lr licResp
	if res.panic != "" {
		return 0, lr, "PANIC " + res.panic
	}
	if res.code == 200 {
		_ = json.Unmarshal([]byte(res.fullBody), &lr)
	}
	return res.code, lr, ""
}

func execLic(a []string) string {
	if len(a) != 1 {
		return "bad-op"
	}
	s := a[0]
	if s == "-" {
		s = ""
	}
	code, lr, p := postLicence(getServer(), "/livesim2/eccp_cenc/testpic_2s/eccp.json", []string{s})
	if p != "" {
		return p
	}
	if code != 200 {
		return fmt.Sprint(code)
	}
	if len(lr.Keys) != 1 {
		return fmt.Sprintf("200 keys=%d", len(lr.Keys))
	}
	return fmt.Sprintf("200 k=%s kid=%s", lr.Keys[0].K, lr.Keys[0].Kid)
}

// ---- DRM server fixture ----

var (
	drmOnce   sync.Once
	drmSrv    *app.Server
	drmAssets []app.VerifAsset
	drmCfg    *drm.DrmConfig
	drmRoot   string
)

func repoRoot() string {
	if r := os.Getenv("VERIF_REPO"); r != "" {
		return r
	}
	return "/repo"
}

// encryptAssetOnDisk turns the video and audio tracks of a generated asset into pre-encrypted ones (cenc).
func encryptAssetOnDisk(dir string, tracks ...string) error {
	key := []byte("0123456789abcdef")
	kid, _ := mp4.NewUUIDFromHex("00112233445566778899aabbccddeeff")
	iv := []byte("12345678")
	if len(tracks) == 0 {
		tracks = []string{"V300", "A48"}
	}
	for _, tr := range tracks {
		ib, err := os.ReadFile(filepath.Join(dir, tr, "init.mp4"))
		if err != nil {
			return err
		}
		f, err := mp4.DecodeFile(bytes.NewReader(ib))
		if err != nil {
			return err
		}
		ipd, err := mp4.InitProtect(f.Init, key, iv, "cenc", kid, nil)
		if err != nil {
			return err
		}
		var buf bytes.Buffer
		if err := f.Init.Encode(&buf); err != nil {
			return err
		}
		if err := os.WriteFile(filepath.Join(dir, tr, "init.mp4"), buf.Bytes(), 0o644); err != nil {
			return err
		}
		segs, _ := filepath.Glob(filepath.Join(dir, tr, "*.m4s"))
		for _, sp := range segs {
			sb, err := os.ReadFile(sp)
			if err != nil {
				return err
			}
			sf, err := mp4.DecodeFile(bytes.NewReader(sb))
			if err != nil {
				return err
			}
			var out bytes.Buffer
			for _, seg := range sf.Segments {
				for _, fr := range seg.Fragments {
					if err := mp4.EncryptFragment(fr, key, iv, ipd); err != nil {
						return err
					}
				}
				if err := seg.Encode(&out); err != nil {
					return err
				}
			}
			if err := os.WriteFile(sp, out.Bytes(), 0o644); err != nil {
				return err
			}
		}
	}
	return nil
}

func getDrmServer() *app.Server {
	drmOnce.Do(func() {
		drmRoot = filepath.Join(workDir(), fmt.Sprintf("vod-drm-%d", os.Getpid()))
		_ = os.RemoveAll(drmRoot)
		must(os.MkdirAll(drmRoot, 0o755))
		for _, a := range []string{"testpic_2s", "testpic_8s", "testpic_6s", "bbb_hevc_ac3_8s"} {
			must(copyTree(filepath.Join(bundledRoot(), a), filepath.Join(drmRoot, a)))
		}
		// a pre-encrypted copy of a real asset (the generated assets carry synthetic payloads that cannot be sub-sample encrypted)
		must(copyTree(filepath.Join(bundledRoot(), "testpic_2s"), filepath.Join(drmRoot, "pre_enc")))
		must(encryptAssetOnDisk(filepath.Join(drmRoot, "pre_enc")))
		// ... and one whose audio track only is pre-encrypted (the reference track, video, is clear)
		must(copyTree(filepath.Join(bundledRoot(), "testpic_2s"), filepath.Join(drmRoot, "pre_enc_audio")))
		must(encryptAssetOnDisk(filepath.Join(drmRoot, "pre_enc_audio"), "A48"))
		var err error
		drmCfgPath = buildDrmConfig()
		drmCfg, err = drm.ReadDrmConfig(drmCfgPath)
		must(err)
		cfg := app.DefaultConfig
		cfg.VodRoot = drmRoot
		cfg.RepDataRoot = ""
		cfg.TimeoutS = 0
		cfg.LogLevel = "ERROR"
		cfg.DrmCfg = drmCfg
		drmSrv, err = app.SetupServer(context.Background(), &cfg)
		must(err)
		drmAssets = drmSrv.VerifAssets()
	})
	return drmSrv
}

func cleanupDrmRoot() {
	if drmCfgPath != "" {
		os.RemoveAll(filepath.Dir(drmCfgPath))
	}
	if drmRoot != "" {
		os.RemoveAll(drmRoot)
	}
}

func drmGet(url string) fuzzRes {
	s := getDrmServer()
	req := httptest.NewRequest("GET", url, nil)
	return serveGuarded(s.LiveRouter, req)
}

var (
	asRe  = regexp.MustCompile(`(?s)<AdaptationSet[^>]*contentType="(\w+)"[^>]*>(.*?)</AdaptationSet>`)
	kidRe = regexp.MustCompile(`schemeIdUri="urn:mpeg:dash:mp4protection:2011"[^>]*?value="(\w+)"[^>]*?default_KID="([0-9a-fA-F-]+)"|default_KID="([0-9a-fA-F-]+)"[^>]*?value="(\w+)"`)
	laRe  = regexp.MustCompile(`<(?:dashif:)?(?:L|l)aurl[^>]*>([^<]+)</`)
	laRe2 = regexp.MustCompile(`(?i)<[\w:]*laurl[^>]*>([^<]+)<`)
)

func uuidHex(s string) string { return strings.ToLower(strings.ReplaceAll(s, "-", "")) }

// tencOf returns the scheme and default KID of a (possibly) protected init segment.
func tencOf(initB []byte) (init *mp4.InitSegment, scheme, kid string, err error) {
	f, err := mp4.DecodeFileSR(bits.NewFixedSliceReader(initB))
	if err != nil || f.Init == nil {
		return nil, "", "", fmt.Errorf("init does not parse: %v", err)
	}
	stsd := f.Init.Moov.Trak.Mdia.Minf.Stbl.Stsd
	var sinf *mp4.SinfBox
	for _, c := range stsd.Children {
		switch b := c.(type) {
		case *mp4.VisualSampleEntryBox:
			sinf = b.Sinf
		case *mp4.AudioSampleEntryBox:
			sinf = b.Sinf
		}
	}
	if sinf == nil || sinf.Schm == nil || sinf.Schi == nil || sinf.Schi.Tenc == nil {
		return f.Init, "", "", nil
	}
	return f.Init, sinf.Schm.SchemeType, hex.EncodeToString(sinf.Schi.Tenc.DefaultKID), nil
}

func genC10(c *Ctx) {
	r := c.Rng
	// ---- ops ----
	z := md5.Sum(make([]byte, 16))
	md5zero := hex.EncodeToString(z[:])
	for _, s := range []string{"testpic_2s", "", "a", "WAVE/vectors/x", "http://localhost:8888/livesim2/eccp_cenc/testpic_2s/eccp.json", "ÅÄÖ"} {
		c.Emit("kid "+md5zero+" "+strings.ReplaceAll(s, " ", ""), true)
	}
	var ids [][]byte
	kidC, _ := hex.DecodeString(app.VerifKidFromString("x"))
	ids = append(ids, kidC)
	for i := 0; i < c.N(300, 3000); i++ {
		b := make([]byte, 16)
		for j := range b {
			b[j] = byte(r.Intn(256))
		}
		switch r.Intn(4) {
		case 0:
			copy(b, []byte{0x28, 0x80, 0xfe})
		case 1:
			copy(b, []byte{0x28, 0x46, 0x3e})
		case 2:
			copy(b, []byte{0x28, 0x80, byte(r.Intn(256))})
		}
		ids = append(ids, b)
	}
	ids = append(ids, make([]byte, 16), bytes.Repeat([]byte{0xff}, 16), bytes.Repeat([]byte{0xfb, 0xef, 0xbe}, 6)[:16])
	for _, b := range ids {
		h := hex.EncodeToString(b)
		c.Emit("k2k "+h, true)
		c.Emit("key2kid "+h, true)
		c.Emit("b64 "+h, true)
		p := app.VerifPackBase64([16]byte(b))
		c.Emit("lic "+p, true)
		if r.Intn(3) == 0 { // other spellings of the same id
			std := base64.StdEncoding.EncodeToString(b)
			c.Emit("lic "+std, true)
			c.Emit("lic "+strings.TrimRight(std, "="), true)
			c.Emit("unb64 "+std, true)
		}
	}
	// malformed licence key ids
	alpha := "ABCDEFGHIJKLMNOPQRSTUVWXYZabcdefghijklmnopqrstuvwxyz0123456789+/-_="
	for i := 0; i < c.N(300, 3000); i++ {
		n := r.Pick(0, 1, 2, 3, 4, 20, 21, 22, 23, 24, 25, 30)
		var sb strings.Builder
		for j := 0; j < n; j++ {
			sb.WriteByte(alpha[r.Intn(len(alpha))])
		}
		s := sb.String()
		if r.Intn(2) == 0 && n >= 22 {
			s = "KID-" + s[4:]
		}
		if s == "" {
			s = "-"
		}
		c.Emit("lic "+s, false)
		c.Emit("unb64 "+s, false)
	}
	// ---- monitors ----
	c10Flow(c)
}

type drmMode struct {
	param   string // URL part
	name    string // cfg.DRM value
	clearKy bool
}

func c10Flow(c *Ctx) {
	getDrmServer()
	defer cleanupDrmRoot()
	c10FlowOn(c, "")
	// the same round trip on a server that was started from stored representation data (written by a first start)
	rd := drmRoot + "-repdata"
	defer os.RemoveAll(rd)
	cfg := app.DefaultConfig
	cfg.VodRoot = drmRoot
	cfg.RepDataRoot = rd
	cfg.WriteRepData = true
	cfg.TimeoutS = 0
	cfg.LogLevel = "ERROR"
	cfg.DrmCfg = drmCfg
	if _, err := app.SetupServer(context.Background(), &cfg); err != nil {
		return
	}
	cfg.WriteRepData = false
	srv2, err := app.SetupServer(context.Background(), &cfg)
	if err != nil {
		c.Violate("cache-start", "server does not start from the representation data it wrote: "+err.Error(), []string{"# start from " + rd}, nil)
		return
	}
	drmSrv = srv2
	drmAssets = srv2.VerifAssets()
	c.Count("drm-flow-on-cache-started-server")
	c10FlowOn(c, "server started from stored representation data: ")
}

func c10FlowOn(c *Ctx, where string) {
	s := getDrmServer()
	r := c.Rng
	modes := []drmMode{{"eccp_cenc", "eccp-cenc", true}, {"eccp_cbcs", "eccp-cbcs", true}}
	for _, p := range drmCfg.Packages {
		modes = append(modes, drmMode{"drm_" + p.Name, p.Name, false})
	}
	viol := func(kind, what, url string, detail any) {
		c.Violate(kind, where+what, []string{"# GET " + url}, detail)
	}
	for ai := range drmAssets {
		a := &drmAssets[ai]
		pre := false
		for _, rp := range a.Reps {
			if rp.PreEncrypted {
				pre = true
			}
		}
		if len(a.MPDs) == 0 {
			continue
		}
		mpdName := a.MPDs[0]
		nSegs := 0
		for _, rp := range a.Reps {
			if rp.ID == a.RefRep {
				nSegs = len(rp.Segments)
			}
		}
		for _, m := range modes {
			for _, stl := range []string{"", "segtimeline_1/"} {
				if stl != "" && !c.Thorough() && r.Intn(2) == 0 {
					continue
				}
				nowMS := a.LoopDurMS*2 + 4300
				base := "/livesim2/" + m.param + "/" + stl + a.AssetPath + "/"
				clearBase := "/livesim2/" + stl + a.AssetPath + "/"
				q := fmt.Sprintf("?nowMS=%d", nowMS)
				mres := drmGet(base + mpdName + q)
				c.Count("mpd-requests")
				if pre {
					// refused, never encrypted twice
					if mres.code < 400 {
						viol("preenc-mpd", fmt.Sprintf("DRM %s on a pre-encrypted asset: the MPD request is answered %d", m.name, mres.code), base+mpdName+q, nil)
					}
					for _, rp := range a.Reps {
						if rp.ContentType != "video" && rp.ContentType != "audio" {
							continue
						}
						for _, u := range []string{base + rp.InitURI + q, base + strings.NewReplacer("$Number$", "3", "$Time$", "0").Replace(rp.MediaURI) + q} {
							rr := drmGet(u)
							c.Count("preenc-requests")
							if rr.code < 400 || rr.panic != "" {
								viol("preenc-served", fmt.Sprintf("DRM %s on a pre-encrypted representation is answered %d %s instead of being refused", m.name, rr.code, rr.panic), u, nil)
							}
						}
					}
					continue
				}
				// an asset with video / audio codecs that livesim2 does not encrypt (HEVC, AC-3): either everything is
				// refused, or everything is protected as announced — never an announced protection over clear media
				unenc := false
				for _, rp := range a.Reps {
					if (rp.ContentType == "video" || rp.ContentType == "audio") && !strings.HasPrefix(rp.Codecs, "avc") && !strings.HasPrefix(rp.Codecs, "mp4a.40") {
						unenc = true
					}
				}
				if unenc && mres.code >= 400 && mres.code < 500 && mres.panic == "" {
					c.Count("drm-refused-codec")
					for _, rp := range a.Reps {
						if rp.ContentType != "video" && rp.ContentType != "audio" {
							continue
						}
						for _, u := range []string{base + rp.InitURI + q, base + strings.NewReplacer("$Number$", strconv.Itoa(nowMS/a.SegmentDurMS-2), "$Time$", "0").Replace(rp.MediaURI) + q} {
							rr := drmGet(u)
							if rr.code < 400 || rr.code >= 500 || rr.panic != "" {
								viol("unenc-served", fmt.Sprintf("DRM %s is refused for the MPD of an asset with codecs that cannot be encrypted, but this request is answered %d %s", m.name, rr.code, rr.panic), u, nil)
							}
						}
					}
					continue
				}
				if mres.code != 200 {
					viol("drm-mpd", fmt.Sprintf("MPD with %s answered %d %s %q", m.name, mres.code, mres.panic, mres.body), base+mpdName+q, nil)
					continue
				}
				// default_KID per content type
				mpdKid := map[string][2]string{} // contentType -> (scheme, kid)
				for _, as := range asRe.FindAllStringSubmatch(mres.fullBody, -1) {
					if km := kidRe.FindStringSubmatch(as[2]); km != nil {
						if km[1] != "" {
							mpdKid[as[1]] = [2]string{km[1], uuidHex(km[2])}
						} else {
							mpdKid[as[1]] = [2]string{km[4], uuidHex(km[3])}
						}
					}
				}
				laPath := ""
				if lm := laRe2.FindStringSubmatch(mres.fullBody); lm != nil {
					laPath = lm[1]
					if i := strings.Index(laPath, "/livesim2/"); i >= 0 {
						laPath = laPath[i:]
					}
				}
				for ri := range a.Reps {
					rp := &a.Reps[ri]
					if rp.ContentType != "video" && rp.ContentType != "audio" {
						continue
					}
					mk, ok := mpdKid[rp.ContentType]
					if !ok {
						viol("mpd-no-kid", fmt.Sprintf("%s: the %s AdaptationSet announces no default_KID", m.name, rp.ContentType), base+mpdName+q, nil)
						continue
					}
					ires := drmGet(base + rp.InitURI + q)
					cires := drmGet(clearBase + rp.InitURI + q)
					if ires.code != 200 || cires.code != 200 {
						viol("drm-init", fmt.Sprintf("%s: init of %s answered %d (clear %d) %s", m.name, rp.ID, ires.code, cires.code, ires.panic), base+rp.InitURI+q, nil)
						continue
					}
					encInit, scheme, kid, err := tencOf([]byte(ires.fullBody))
					if err != nil || kid == "" {
						viol("init-unprotected", fmt.Sprintf("%s: init of %s carries no protection box (%v)", m.name, rp.ID, err), base+rp.InitURI+q, nil)
						continue
					}
					if kid != mk[1] {
						viol("kid-mismatch", fmt.Sprintf("%s %s: MPD default_KID %s, init tenc KID %s", m.name, rp.ID, mk[1], kid), base+rp.InitURI+q, nil)
					}
					if scheme != mk[0] {
						viol("scheme-mismatch", fmt.Sprintf("%s %s: MPD announces %s, init schm is %s", m.name, rp.ID, mk[0], scheme), base+rp.InitURI+q, nil)
					}
					if m.clearKy && scheme != strings.TrimPrefix(m.name, "eccp-") {
						viol("scheme-wrong", fmt.Sprintf("%s %s: init schm is %s", m.name, rp.ID, scheme), base+rp.InitURI+q, nil)
					}
					// the key
					var key []byte
					if m.clearKy {
						kb, _ := hex.DecodeString(kid)
						if laPath == "" {
							viol("no-laurl", m.name+": the MPD carries no licence URL", base+mpdName+q, nil)
							continue
						}
						code, lr, p := postLicence(s, laPath, []string{app.VerifPackBase64([16]byte(kb))})
						c.Count("licence-requests")
						if p != "" || code != 200 || len(lr.Keys) != 1 {
							viol("licence", fmt.Sprintf("%s: licence request for the announced key id %s answered %d %s", m.name, kid, code, p), laPath, nil)
							continue
						}
						if got, _ := base64.RawURLEncoding.DecodeString(lr.Keys[0].Kid); hex.EncodeToString(got) != kid {
							viol("licence-kid", fmt.Sprintf("%s: licence answers for key id %x, asked for %s", m.name, got, kid), laPath, nil)
						}
						key, _ = base64.RawURLEncoding.DecodeString(lr.Keys[0].K)
						// the same key id in the other base64 spellings a client may send (padded base64url, standard base64)
						for _, form := range []string{base64.URLEncoding.EncodeToString(kb), base64.StdEncoding.EncodeToString(kb), base64.RawStdEncoding.EncodeToString(kb)} {
							code2, lr2, p2 := postLicence(s, laPath, []string{form})
							c.Count("licence-requests-other-spelling")
							if p2 != "" || code2 != 200 || len(lr2.Keys) != 1 || lr2.Keys[0].K != lr.Keys[0].K || lr2.Keys[0].Kid != lr.Keys[0].Kid {
								viol("licence-spelling", fmt.Sprintf("%s: licence request for the announced key id %s written %q answered %d %s (the unpadded base64url form gets the key)", m.name, kid, form, code2, p2), laPath, nil)
								break
							}
						}
					} else {
						kd, err := drmCfg.Map[m.name].CPIXData.GetContentKey(rp.ContentType)
						if err != nil {
							viol("cpix-key", fmt.Sprintf("%s: no content key for %s: %v", m.name, rp.ContentType, err), base, nil)
							continue
						}
						key = kd.Key
						// the key the CPIX document itself gives for the announced key id (read by the harness, not by pkg/drm)
						if own := ownCPIXKey(m.name, kid); own == nil {
							c.Count("cpix-own-reader-no-key")
						} else if !bytes.Equal(own, key) {
							viol("cpix-key-of-kid", fmt.Sprintf("%s %s: the content key used for key id %s is not the one the CPIX document lists for it", m.name, rp.ID, kid), base+rp.InitURI+q, nil)
							key = own
						}
						if hex.EncodeToString(kd.KeyID) != kid {
							viol("cpix-kid", fmt.Sprintf("%s %s: init KID %s, CPIX key id %x", m.name, rp.ID, kid, kd.KeyID), base+rp.InitURI+q, nil)
						}
					}
					di, err := mp4.DecryptInit(encInit)
					if err != nil {
						viol("decrypt-init", fmt.Sprintf("%s %s: %v", m.name, rp.ID, err), base+rp.InitURI+q, nil)
						continue
					}
					// the decrypted init equals the clear one
					var db bytes.Buffer
					_ = encInit.Encode(&db)
					cf, _ := mp4.DecodeFileSR(bits.NewFixedSliceReader([]byte(cires.fullBody)))
					if cf != nil && cf.Init != nil {
						ce, _, _, _ := tencOf([]byte(cires.fullBody))
						var cb bytes.Buffer
						_ = ce.Encode(&cb)
						if !bytes.Equal(db.Bytes(), cb.Bytes()) {
							c.Count("init-differs-after-decrypt") // informational: pssh / ordering may legitimately differ
						}
					}
					trex := encInit.Moov.Mvex.Trex
					// media segments over a loop and its wrap, whole and chunked
					ref := refRepOf(a)
					if ref == nil {
						continue
					}
					kmax := nSegs + 2
					if !c.Thorough() && kmax > 5 {
						kmax = 5
					}
					for k := nSegs; k < nSegs+kmax; k++ {
						e := expectSeg(a, ref, k, 0)
						id := fmt.Sprint(e.nr)
						if stl != "" {
							if rp.ContentType == "audio" && rp.ConstSampleDur > 0 {
								id = fmt.Sprint(ceilFrame(e.start, uint64(ref.MediaTimescale), uint64(rp.ConstSampleDur), uint64(rp.MediaTimescale)))
							} else {
								id = fmt.Sprint(expectSeg(a, rp, k, 0).start)
							}
						}
						av, _ := availMS(e, ref.MediaTimescale, 0, 0)
						sq := fmt.Sprintf("?nowMS=%d", av+int64(a.SegmentDurMS)+500)
						media := strings.NewReplacer("$Number$", id, "$Time$", id).Replace(rp.MediaURI)
						for _, chunked := range []string{"", "chunkdur_0.5/ato_1/"} {
							if chunked != "" && a.SegmentDurMS <= 1000 {
								continue
							}
							eu := "/livesim2/" + m.param + "/" + chunked + stl + a.AssetPath + "/" + media + sq
							cu := "/livesim2/" + chunked + stl + a.AssetPath + "/" + media + sq
							er, cr := drmGet(eu), drmGet(cu)
							c.Count("media-pairs")
							if strings.Contains(m.name, "noiv") && cr.code == 200 && er.code >= 400 && er.panic == "" {
								// a key without explicitIV: livesim2 refuses the media segments ("iv must be 16 bytes"); what it
								// does serve must decrypt with the served init like any other
								c.Count("media-refused-no-explicit-iv")
								continue
							}
							if er.code != 200 || cr.code != 200 {
								viol("drm-media", fmt.Sprintf("%s %s k=%d: encrypted %d %s, clear %d", m.name, rp.ID, k, er.code, er.panic, cr.code), eu, nil)
								continue
							}
							what := c10Compare([]byte(er.fullBody), []byte(cr.fullBody), di, key, trex)
							if what != "" {
								viol("decrypt-differs", fmt.Sprintf("%s %s k=%d %s: %s", m.name, rp.ID, k, map[bool]string{true: "chunked", false: "whole"}[chunked != ""], what), eu, nil)
							}
							if bytes.Equal([]byte(er.fullBody), []byte(cr.fullBody)) {
								viol("not-encrypted", fmt.Sprintf("%s %s k=%d: the DRM response is byte-identical to the clear one", m.name, rp.ID, k), eu, nil)
							}
						}
					}
				}
			}
		}
	}
}

// c10Compare decrypts the encrypted response and compares every sample with the clear response.
func c10Compare(enc, clear []byte, di mp4.DecryptInfo, key []byte, trex *mp4.TrexBox) (what string) {
	defer func() {
		if r := recover(); r != nil {
			what = fmt.Sprintf("decryption panics: %v", r)
		}
	}()
	ef, err := mp4.DecodeFileSR(bits.NewFixedSliceReader(enc))
	if err != nil {
		return "encrypted response does not parse: " + err.Error()
	}
	nf := 0
	for _, seg := range ef.Segments {
		for _, fr := range seg.Fragments {
			nf++
			if fr.Moof.Traf.Senc == nil && fr.Moof.Traf.UUIDSenc == nil {
				return fmt.Sprintf("fragment %d carries no senc box (left unencrypted)", nf)
			}
			if err := mp4.DecryptFragment(fr, di, key); err != nil {
				return fmt.Sprintf("fragment %d does not decrypt: %v", nf, err)
			}
		}
	}
	var db bytes.Buffer
	for _, seg := range ef.Segments {
		if err := seg.Encode(&db); err != nil {
			return "re-encode: " + err.Error()
		}
	}
	ds, _, dseq, err := samplesOf(db.Bytes(), trex)
	if err != nil {
		return "decrypted samples: " + err.Error()
	}
	cs, _, cseq, err := samplesOf(clear, trex)
	if err != nil {
		return "clear samples: " + err.Error()
	}
	if len(ds) != len(cs) {
		return fmt.Sprintf("%d samples after decryption, %d in the clear segment", len(ds), len(cs))
	}
	if fmt.Sprint(dseq) != fmt.Sprint(cseq) {
		return fmt.Sprintf("sequence numbers %v vs %v", dseq, cseq)
	}
	for i := range ds {
		if ds[i].t != cs[i].t || ds[i].dur != cs[i].dur || ds[i].flags != cs[i].flags {
			return fmt.Sprintf("sample %d: timing/flags differ", i)
		}
		if !bytes.Equal(ds[i].data, cs[i].data) {
			return fmt.Sprintf("sample %d: payload after decryption differs from the clear payload", i)
		}
	}
	return ""
}

// ownCPIXKey reads the CPIX document of a DRM package with encoding/xml and returns the secret listed for the key id
// (hex, no dashes); nil if it cannot be found.
func ownCPIXKey(pkgName, kidHex string) []byte {
	raw, err := os.ReadFile(drmCfgPath)
	if err != nil {
		return nil
	}
	var cfg struct {
		Packages []struct {
			Name     string `json:"name"`
			CpixFile string `json:"cpixFile"`
		} `json:"packages"`
	}
	if json.Unmarshal(raw, &cfg) != nil {
		return nil
	}
	for _, p := range cfg.Packages {
		if p.Name != pkgName {
			continue
		}
		xb, err := os.ReadFile(filepath.Join(filepath.Dir(drmCfgPath), p.CpixFile))
		if err != nil {
			return nil
		}
		var doc struct {
			Keys []struct {
				Kid   string `xml:"kid,attr"`
				Plain string `xml:"Data>Secret>PlainValue"`
			} `xml:"ContentKeyList>ContentKey"`
		}
		if xml.Unmarshal(xb, &doc) != nil {
			return nil
		}
		for _, k := range doc.Keys {
			if strings.ReplaceAll(strings.ToLower(k.Kid), "-", "") == kidHex {
				b, err := base64.StdEncoding.DecodeString(strings.TrimSpace(k.Plain))
				if err != nil {
					return nil
				}
				return b
			}
		}
	}
	return nil
}

var drmCfgPath string

// buildDrmConfig copies the repository's DRM test configuration and adds a package whose cbcs key has an 8-byte
// explicitIV (legal for cbcs: constant IVs of 8 or 16 bytes): init and media must use the same IV.
func buildDrmConfig() string {
	src := filepath.Join(repoRoot(), "pkg/drm/testdata")
	dst := filepath.Join(workDir(), fmt.Sprintf("drmcfg-%d", os.Getpid()))
	_ = os.RemoveAll(dst)
	must(os.MkdirAll(dst, 0o755))
	raw, err := os.ReadFile(filepath.Join(src, "drm_config_test.json"))
	must(err)
	var cfg map[string]any
	must(json.Unmarshal(raw, &cfg))
	pkgs, _ := cfg["packages"].([]any)
	var first map[string]any
	for _, p := range pkgs {
		pm, _ := p.(map[string]any)
		if f, _ := pm["cpixFile"].(string); f != "" {
			b, err := os.ReadFile(filepath.Join(src, f))
			must(err)
			must(os.WriteFile(filepath.Join(dst, f), b, 0o644))
			if first == nil {
				first = pm
			}
		}
	}
	if first != nil {
		f, _ := first["cpixFile"].(string)
		b, _ := os.ReadFile(filepath.Join(src, f))
		if m := regexp.MustCompile(`explicitIV="([^"]+)"`).FindSubmatch(b); m != nil {
			if iv, err := base64.StdEncoding.DecodeString(string(m[1])); err == nil && len(iv) == 16 {
				b8 := bytes.Replace(b, m[0], []byte(`explicitIV="`+base64.StdEncoding.EncodeToString(iv[:8])+`"`), -1)
				must(os.WriteFile(filepath.Join(dst, "cpix_iv8.xml"), b8, 0o644))
				np := map[string]any{}
				for k, v := range first {
					np[k] = v
				}
				np["name"] = "verif-iv8-cbcs"
				np["desc"] = "one-key cbcs with an 8-byte explicitIV (generated by /verif/harness)"
				np["cpixFile"] = "cpix_iv8.xml"
				pkgs = append(pkgs, np)
				// ... and one whose key has no explicitIV at all (the attribute is optional in CPIX)
				bn := bytes.Replace(b, append([]byte(" "), m[0]...), nil, -1)
				must(os.WriteFile(filepath.Join(dst, "cpix_noiv.xml"), bn, 0o644))
				nn := map[string]any{}
				for k, v := range first {
					nn[k] = v
				}
				nn["name"] = "verif-noiv-cbcs"
				nn["desc"] = "one-key cbcs without explicitIV (generated by /verif/harness)"
				nn["cpixFile"] = "cpix_noiv.xml"
				cfg["packages"] = append(pkgs, nn)
			}
		}
	}
	out, _ := json.Marshal(cfg)
	p := filepath.Join(dst, "drm_config.json")
	must(os.WriteFile(p, out, 0o644))
	return p
}
