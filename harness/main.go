// Command harness drives the real livesim2 code for the correspondence checks (L3) and evaluates the
// implementation-side property monitors.  It never decides a property on its own: the Lean theorems do;
// this program ties the Lean model to /repo's current working tree and searches for failing inputs.
//
// Usage:
//
//	harness gen   <Cxx> --tier quick|thorough --seed N --out DIR   generate op lines, run the implementation
//	harness exec  < ops.txt                                        run the implementation on given op lines
//
// Files written by gen into DIR: ops.txt (one op per line, fed to the Lean driver), impl.txt (canonical
// implementation output per op line), monitor.jsonl (monitor violations with replay), stats.json.
package main

import (
	"bufio"
	"encoding/json"
	"flag"
	"fmt"
	"io"
	"log/slog"
	"os"
	"path/filepath"
	"regexp"
	"sort"
	"strings"
	"time"
)

// Rng is a splitmix64 generator: every random choice of a run derives from VERIF_SEED through it.
type Rng struct{ s uint64 }

func (r *Rng) U64() uint64 {
	r.s += 0x9e3779b97f4a7c15
	z := r.s
	z = (z ^ (z >> 30)) * 0xbf58476d1ce4e5b9
	z = (z ^ (z >> 27)) * 0x94d049bb133111eb
	return z ^ (z >> 31)
}
func (r *Rng) Intn(n int) int {
	if n <= 0 {
		return 0
	}
	return int(r.U64() % uint64(n))
}
func (r *Rng) Range(lo, hi int) int { return lo + r.Intn(hi-lo+1) }
func (r *Rng) Bool() bool           { return r.U64()&1 == 1 }
func (r *Rng) Pick(xs ...int) int   { return xs[r.Intn(len(xs))] }
func (r *Rng) PickS(xs ...string) string {
	return xs[r.Intn(len(xs))]
}

// Violation is a monitor finding: the property does not hold on the implementation for this input.
type Violation struct {
	Property string   `json:"property"`
	Kind     string   `json:"kind"`   // short stable class, matched against known_findings.jsonl
	What     string   `json:"what"`   // human readable
	Ops      []string `json:"ops"`    // op lines that replay it
	Detail   any      `json:"detail"` // expected / got
}

// Ctx collects what one generator run produces.
type Ctx struct {
	Prop     string
	Tier     string
	Seed     int64
	Rng      *Rng
	ops      *bufio.Writer
	impl     *bufio.Writer
	mon      *bufio.Writer
	nOps     int
	nViol    int
	Stats    map[string]int
	Samples  []string
	distinct map[string]struct{}
	nontriv  map[string]struct{}
	OutDir   string
	spins    int
	perKind  map[string]int
}

func (c *Ctx) Thorough() bool { return c.Tier == "thorough" }

// N picks the case count for the tier.
func (c *Ctx) N(quick, thorough int) int {
	if c.Thorough() {
		return thorough
	}
	return quick
}

// Emit runs one op line on the implementation, records op and output, and returns the output.
// nontrivial marks cases that count for distinct_nontrivial (the caller states the rule).
func (c *Ctx) Emit(line string, nontrivial bool) string {
	return c.EmitOut(line, ExecOp(line), nontrivial)
}

// EmitOut records an op whose implementation output the caller has already computed.
func (c *Ctx) EmitOut(line, out string, nontrivial bool) string {
	fmt.Fprintln(c.ops, line)
	fmt.Fprintln(c.impl, out)
	c.nOps++
	op := strings.SplitN(line, " ", 2)[0]
	c.Stats["op."+op]++
	kind := strings.SplitN(out, " ", 2)[0]
	c.Stats["out."+op+"."+kind]++
	if _, ok := c.distinct[line]; !ok {
		c.distinct[line] = struct{}{}
		if nontrivial {
			c.nontriv[line] = struct{}{}
		}
	}
	if len(c.Samples) < 6 && (c.nOps%97 == 1 || c.nOps < 3) {
		s := line + " => " + out
		if len(s) > 600 {
			s = s[:600] + "…"
		}
		c.Samples = append(c.Samples, s)
	}
	return out
}

func (c *Ctx) Count(key string) { c.Stats[key]++ }

func (c *Ctx) Violate(kind, what string, ops []string, detail any) {
	c.nViol++
	if c.perKind == nil {
		c.perKind = map[string]int{}
	}
	c.perKind[kind]++
	if c.perKind[kind] > 40 { // keep every kind visible
		return
	}
	v := Violation{Property: c.Prop, Kind: kind, What: what, Ops: ops, Detail: detail}
	b, _ := json.Marshal(v)
	c.mon.Write(b)
	c.mon.WriteString("\n")
}

type genFunc func(c *Ctx)

var generators = map[string]genFunc{}

// opExec maps an op name to its implementation runner.
var opExec = map[string]func(args []string) string{}

// ExecOp runs one op line against the real code, canonicalising panics.
func ExecOp(line string) (out string) {
	f := strings.Fields(line)
	if len(f) == 0 {
		return "bad-op"
	}
	fn, ok := opExec[f[0]]
	if !ok {
		return "bad-op"
	}
	defer func() {
		if r := recover(); r != nil {
			out = "PANIC " + panicKind(r)
		}
	}()
	return fn(f[1:])
}

func panicKind(r any) string {
	s := fmt.Sprint(r)
	switch {
	case strings.Contains(s, "index out of range"), strings.Contains(s, "slice bounds out of range"):
		return "index"
	case strings.Contains(s, "divide by zero"):
		return "divzero"
	case strings.Contains(s, "nil pointer"), strings.Contains(s, "nil map"):
		return "nil"
	case strings.Contains(s, "interface conversion"):
		return "typeassert"
	}
	if len(s) > 60 {
		s = s[:60]
	}
	return "explicit:" + strings.ReplaceAll(s, " ", "_")
}

func main() {
	if os.Getenv("VERIF_LOG") == "" {
		slog.SetDefault(slog.New(slog.NewTextHandler(io.Discard, nil)))
	}
	if len(os.Args) < 2 {
		fmt.Fprintln(os.Stderr, "usage: harness gen|exec ...")
		os.Exit(2)
	}
	switch os.Args[1] {
	case "gen":
		fs := flag.NewFlagSet("gen", flag.ExitOnError)
		tier := fs.String("tier", "quick", "quick|thorough")
		seed := fs.Int64("seed", 1, "PRNG seed")
		out := fs.String("out", "", "output directory")
		if len(os.Args) < 3 {
			os.Exit(2)
		}
		prop := os.Args[2]
		curProp = prop
		_ = fs.Parse(os.Args[3:])
		g, ok := generators[prop]
		if !ok {
			fmt.Fprintln(os.Stderr, "no generator for", prop)
			os.Exit(2)
		}
		must(os.MkdirAll(*out, 0o755))
		of, err := os.Create(filepath.Join(*out, "ops.txt"))
		must(err)
		imf, err := os.Create(filepath.Join(*out, "impl.txt"))
		must(err)
		mf, err := os.Create(filepath.Join(*out, "monitor.jsonl"))
		must(err)
		c := &Ctx{Prop: prop, Tier: *tier, Seed: *seed, Rng: &Rng{s: uint64(*seed)*0x9e3779b97f4a7c15 + 12345},
			ops: bufio.NewWriterSize(of, 1<<20), impl: bufio.NewWriterSize(imf, 1<<20), mon: bufio.NewWriter(mf),
			Stats: map[string]int{}, distinct: map[string]struct{}{}, nontriv: map[string]struct{}{}, OutDir: *out}
		t0 := time.Now()
		// corpus first
		corpus, _ := filepath.Glob(filepath.Join(corpusDir(), prop, "*.ops"))
		sort.Strings(corpus)
		for _, f := range corpus {
			b, err := os.ReadFile(f)
			if err != nil {
				continue
			}
			for _, l := range strings.Split(string(b), "\n") {
				l = strings.TrimSpace(l)
				if l == "" || strings.HasPrefix(l, "#") {
					continue
				}
				c.Emit(l, true)
				c.Count("corpus")
			}
		}
		g(c)
		clMu.Lock()
		for _, mm := range clMismatches {
			c.Violate("content-length", "the announced Content-Length is not the length of the body (a real HTTP server truncates the response): "+mm, []string{"# " + strings.SplitN(mm, ":", 2)[0]}, nil)
		}
		clMu.Unlock()
		cleanupVodRoot()
		_ = os.RemoveAll(filepath.Join(workDir(), "c17", fmt.Sprint(os.Getpid())))
		must(c.ops.Flush())
		must(c.impl.Flush())
		must(c.mon.Flush())
		of.Close()
		imf.Close()
		mf.Close()
		st := map[string]any{
			"ops": c.nOps, "distinct": len(c.distinct), "distinct_nontrivial": len(c.nontriv),
			"monitor_violations": c.nViol, "stats": c.Stats, "samples": c.Samples,
			"gen_wall_s": time.Since(t0).Seconds(),
		}
		b, _ := json.MarshalIndent(st, "", " ")
		must(os.WriteFile(filepath.Join(*out, "stats.json"), b, 0o644))
	case "c07child":
		c07Child(os.Args[2:])
	case "c17child":
		c17Child(os.Args[2:])
	case "c19child":
		c19Child(os.Args[2:])
	case "c08child":
		c08Child(os.Args[2:])
	case "c08ingest":
		c08IngestChild(os.Args[2:])
	case "exec":
		sc := bufio.NewScanner(os.Stdin)
		sc.Buffer(make([]byte, 1<<20), 64<<20)
		w := bufio.NewWriter(os.Stdout)
		for sc.Scan() {
			l := strings.TrimSpace(sc.Text())
			if l == "" || strings.HasPrefix(l, "#") {
				continue
			}
			fmt.Fprintln(w, ExecOp(l))
		}
		w.Flush()
	default:
		fmt.Fprintln(os.Stderr, "unknown command", os.Args[1])
		os.Exit(2)
	}
}

func corpusDir() string {
	if d := os.Getenv("VERIF_CORPUS"); d != "" {
		return d
	}
	return "/verif/corpus"
}

func must(err error) {
	if err != nil {
		fmt.Fprintln(os.Stderr, "harness:", err)
		os.Exit(3)
	}
}

func regexpMust(s string) *regexp.Regexp { return regexp.MustCompile(s) }
