package main

// C18: chunk parser — op `parse <hex> <sched> <eofWithData> <failRead|-> <failCb|->`.

import (
	"bytes"
	"encoding/binary"
	"encoding/hex"
	"errors"
	"fmt"
	"io"
	"os"
	"strconv"
	"strings"
	"time"

	"github.com/Dash-Industry-Forum/livesim2/pkg/chunkparser"
)

var errInjected = errors.New("injected")

// the values a failing reader returns: whatever it is, Parse must hand it back ("read errors are returned"); among them
// the ones net/http and pipes produce for a body that was cut short
var injReadErrs = []error{errInjected, io.ErrUnexpectedEOF, io.ErrClosedPipe, io.ErrNoProgress}

// schedReader mirrors CP.Rd of the Lean model exactly.
type schedReader struct {
	rest        []byte
	sched       []int
	eofWithData bool
	failRead    int // -1 = never
	failErr     error
	calls       int
	ends        []int // cumulative number of bytes handed out after each Read call (0-byte calls included)
	total       int
}

func (r *schedReader) Read(p []byte) (n int, err error) {
	defer func() { r.total += n; r.ends = append(r.ends, r.total) }()
	return r.read(p)
}

func (r *schedReader) read(p []byte) (int, error) {
	r.calls++
	if r.failRead == 0 {
		return 0, r.failErr
	}
	if r.failRead > 0 {
		r.failRead--
	}
	if len(r.rest) == 0 {
		return 0, io.EOF
	}
	capp := len(p)
	n := capp
	if len(r.sched) > 0 {
		n = r.sched[0]
		r.sched = r.sched[1:]
	}
	if n < 1 {
		n = 1
	}
	if n > capp {
		n = capp
	}
	if n > len(r.rest) {
		n = len(r.rest)
	}
	copy(p, r.rest[:n])
	r.rest = r.rest[n:]
	if len(r.rest) == 0 && r.eofWithData {
		return n, io.EOF
	}
	return n, nil
}

func rollHash(b []byte) uint32 {
	h := uint32(7)
	for _, x := range b {
		h = h*31 + uint32(x)
	}
	return h
}

type cbRec struct {
	start     uint32
	isInit    bool
	data      []byte
	callsAtCb int // Read calls made when the callback ran
}

type parseOut struct {
	kind     string
	cbs      []cbRec
	readEnds []int
}

func (p parseOut) String() string {
	var sb strings.Builder
	sb.WriteString(p.kind)
	sb.WriteString(" [")
	for i, c := range p.cbs {
		if i > 0 {
			sb.WriteByte(',')
		}
		in := 0
		if c.isInit {
			in = 1
		}
		fmt.Fprintf(&sb, "(%d,%d,%d,%d)", c.start, in, len(c.data), rollHash(c.data))
	}
	sb.WriteString("]")
	return sb.String()
}

var spinCount int

// runParse runs the real parser under a deadline (a spin cannot be interrupted, its goroutine is abandoned).
func runParse(input []byte, sched []int, eofWithData bool, failRead, failCb int, bufSize int) parseOut {
	if spinCount >= 3 {
		return parseOut{kind: "SKIPPED-after-spins"}
	}
	done := make(chan parseOut, 1)
	go func() {
		defer func() {
			if r := recover(); r != nil {
				done <- parseOut{kind: "PANIC " + panicKind(r)}
			}
		}()
		rd := &schedReader{rest: append([]byte(nil), input...), sched: append([]int(nil), sched...),
			eofWithData: eofWithData, failRead: failRead, failErr: injReadErrs[(len(input)+len(sched)+maxInt(failRead, 0))%len(injReadErrs)]}
		var cbs []cbRec
		nCb := 0
		cb := func(cd chunkparser.ChunkData) error {
			cbs = append(cbs, cbRec{cd.Start, cd.IsInitSegment, append([]byte(nil), cd.Data...), len(rd.ends)})
			nCb++
			if failCb >= 0 && nCb-1 == failCb {
				return errInjected
			}
			return nil
		}
		initBuf := make([]byte, maxInt(bufSize, 0))
		if bufSize < 0 { // a recycled buffer: no length, capacity -bufSize
			initBuf = make([]byte, 0, -bufSize)
		}
		p := chunkparser.NewMP4ChunkParser(rd, initBuf, cb)
		err := p.Parse()
		kind := "done"
		switch {
		case err == nil:
		case errors.Is(err, errInjected) && failCb >= 0 && nCb-1 == failCb && rd.failErr != errInjected:
			kind = "cberr"
		case err == rd.failErr:
			// which one? a callback error is returned right after the failing call
			if failCb >= 0 && nCb-1 == failCb && rd.failRead != 0 {
				kind = "cberr"
			} else {
				kind = "readerr"
			}
		case errors.Is(err, errInjected):
			kind = "cberr"
		case strings.Contains(err.Error(), "box size"):
			kind = "badsize"
		default:
			kind = "err:" + strings.ReplaceAll(err.Error(), " ", "_")
		}
		done <- parseOut{kind: kind, cbs: cbs, readEnds: rd.ends}
	}()
	select {
	case r := <-done:
		return r
	case <-time.After(3 * time.Second):
		spinCount++
		return parseOut{kind: "SPIN"}
	}
}

func parseIntList(s string) []int {
	if s == "-" || s == "" {
		return nil
	}
	var out []int
	for _, p := range strings.Split(s, ",") {
		v, _ := strconv.Atoi(p)
		out = append(out, v)
	}
	return out
}

func optInt(s string) int {
	if s == "-" {
		return -1
	}
	v, _ := strconv.Atoi(s)
	return v
}

func init() {
	opExec["parse"] = func(a []string) string {
		if len(a) != 5 {
			return "bad-op"
		}
		var in []byte
		if a[0] != "-" {
			var err error
			in, err = hex.DecodeString(a[0])
			if err != nil {
				return "bad-op"
			}
		}
		return runParse(in, parseIntList(a[1]), a[2] == "1", optInt(a[3]), optInt(a[4]), 0).String()
	}
	generators["C18"] = genC18
}

func mkBox(typ string, payload []byte) []byte {
	b := make([]byte, 8+len(payload))
	binary.BigEndian.PutUint32(b, uint32(8+len(payload)))
	copy(b[4:], typ)
	copy(b[8:], payload)
	return b
}

func randBytes(r *Rng, n int) []byte {
	b := make([]byte, n)
	for i := range b {
		b[i] = byte(r.U64())
	}
	return b
}

type boxInfo struct {
	off, size int
	typ       string
}

// c18Stream builds init? ∥ k chunks ∥ trailing?, returns the stream and its box layout.
// sparse payloads (zeros with isolated 1s) keep any misread size field below 16 MiB, so that a
// corrupted size never makes the implementation allocate gigabytes (which is slow, not a spin).
func c18Stream(r *Rng, sparse bool) ([]byte, []boxInfo) {
	var out []byte
	var boxes []boxInfo
	add := func(typ string, n int) {
		pl := randBytes(r, n)
		if sparse {
			gap := 3
			for i := range pl {
				if gap >= 3 && pl[i]%6 == 0 {
					pl[i] = 1
					gap = 0
				} else {
					pl[i] = 0
					gap++
				}
			}
		}
		b := mkBox(typ, pl)
		boxes = append(boxes, boxInfo{len(out), len(b), typ})
		out = append(out, b...)
	}
	if r.Intn(3) > 0 {
		if r.Bool() {
			add("ftyp", r.Range(0, 12))
		}
		add("moov", r.Range(0, 40))
	}
	k := r.Range(0, 4)
	for i := 0; i < k; i++ {
		if r.Intn(4) == 0 {
			add(r.PickS("styp", "free", "emsg", "prft", "sidx"), r.Range(0, 16))
		}
		add("moof", r.Range(0, 24))
		add("mdat", r.Range(0, 48))
	}
	return out, boxes
}

// expectedCbs is the independent oracle for well-formed streams: one callback at the end of each mdat,
// plus one for trailing bytes; init flag from the first moov header on.
func expectedCbs(stream []byte, boxes []boxInfo, trailing int) []cbRec {
	var cbs []cbRec
	start := 0
	isInit := false
	for _, b := range boxes {
		if b.typ == "moov" {
			isInit = true
		}
		if b.typ == "mdat" {
			end := b.off + b.size
			cbs = append(cbs, cbRec{start: uint32(start), isInit: isInit, data: stream[start:end]})
			start = end
		}
	}
	if start < len(stream) {
		cbs = append(cbs, cbRec{start: uint32(start), isInit: isInit, data: stream[start:]})
	}
	return cbs
}

func c18Sched(r *Rng, n int, boxes []boxInfo) (string, string) {
	switch r.Intn(6) {
	case 0:
		return "-", "all"
	case 1:
		return strings.TrimSuffix(strings.Repeat("1,", n+2), ","), "bytewise"
	case 2: // box-edge aligned: header then body
		var s []string
		for _, b := range boxes {
			s = append(s, "8")
			if b.size > 8 {
				s = append(s, strconv.Itoa(b.size-8))
			}
		}
		if len(s) == 0 {
			return "-", "all"
		}
		return strings.Join(s, ","), "boxedge"
	case 3:
		var s []string
		m := r.Range(1, 9)
		for i := 0; i < n/m+3; i++ {
			s = append(s, strconv.Itoa(m))
		}
		return strings.Join(s, ","), "fixed"
	default:
		var s []string
		for i := 0; i < 12+n/4; i++ {
			s = append(s, strconv.Itoa(r.Range(1, 1+r.Pick(2, 7, 30, 200))))
		}
		return strings.Join(s, ","), "random"
	}
}

func genC18(c *Ctx) {
	r := c.Rng
	n := c.N(1500, 40000)
	for i := 0; i < n; i++ {
		mclass := r.Intn(10)
		stream, boxes := c18Stream(r, mclass == 2 || mclass == 3)
		wellFormed := true
		trailing := 0
		mut := "none"
		switch mclass {
		case 0, 1: // truncate anywhere
			if len(stream) > 0 {
				stream = stream[:r.Intn(len(stream)+1)]
				wellFormed = false
				mut = "truncate"
			}
		case 2, 3: // corrupt a size field
			if len(boxes) > 0 {
				b := boxes[r.Intn(len(boxes))]
				var v uint32
				switch r.Intn(8) {
				case 0:
					v = 0
				case 1:
					v = 1
				case 2:
					v = 7
				case 3:
					v = 8
				case 4:
					v = uint32(b.size + r.Range(1, 30))
				case 5: // 32-bit wrap back to an earlier offset (refused after the fix; no allocation);
					// only before the first mdat, where nextBoxStart is still the absolute offset
					if b.off >= 8 && !mdatBefore(boxes, b.off) {
						v = uint32(1<<32 - uint64(r.Range(1, b.off)))
					} else {
						v = 3
					}
				case 6:
					v = uint32(r.Range(9, 100000))
				default:
					v = uint32(r.Range(2, 6))
				}
				binary.BigEndian.PutUint32(stream[b.off:], v)
				wellFormed = false
				mut = "size"
			}
		case 4: // trailing garbage shorter than a header, or a partial box
			trailing = r.Range(1, 7)
			stream = append(stream, randBytes(r, trailing)...)
			mut = "trailing"
		}
		if hugeBox(stream) {
			c.Count("skipped-huge-size") // would make the implementation allocate gigabytes (slow, not a spin)
			continue
		}
		sched, skind := c18Sched(r, len(stream), boxes)
		eof := r.Intn(2)
		fr, fc := "-", "-"
		switch r.Intn(12) {
		case 0:
			fr = strconv.Itoa(r.Intn(6))
		case 1:
			fc = strconv.Itoa(r.Intn(3))
		}
		hx := "-"
		if len(stream) > 0 {
			hx = hex.EncodeToString(stream)
		}
		line := fmt.Sprintf("parse %s %s %d %s %s", hx, sched, eof, fr, fc)
		c.Count("mut." + mut)
		c.Count("sched." + skind)
		res := runParseFromLine(line, 0)
		if strings.HasPrefix(res.kind, "SKIPPED") {
			break
		}
		c.EmitOut(line, res.String(), len(stream) >= 8)
		// ---- monitors (implementation side, independent of the Lean model) ----
		if res.kind == "SPIN" {
			c.Violate("spin", "Parse does not terminate", []string{line}, nil)
			continue
		}
		if strings.HasPrefix(res.kind, "PANIC") {
			c.Violate("panic", "Parse panics: "+res.kind, []string{line}, nil)
			continue
		}
		var cat []byte
		for _, cb := range res.cbs {
			cat = append(cat, cb.data...)
		}
		if res.kind == "done" && !bytes.Equal(cat, stream) {
			c.Violate("concat", "callback data concatenated differs from input", []string{line},
				map[string]int{"input": len(stream), "delivered": len(cat)})
		}
		if res.kind != "done" && !bytes.HasPrefix(stream, cat) {
			c.Violate("prefix", "callback data is not a prefix of the input", []string{line}, nil)
		}
		if fr == "-" && fc == "-" && res.kind != "done" && res.kind != "badsize" {
			c.Violate("error-invented", "Parse returned an error although reader and callback never failed: "+res.kind,
				[]string{line}, nil)
		}
		if fc != "-" && res.kind == "done" && len(res.cbs) > optInt(fc) {
			c.Violate("cb-error-lost", "callback error not returned", []string{line}, nil)
		}
		if (wellFormed || mut == "trailing") && fr == "-" && fc == "-" {
			exp := expectedCbs(stream, boxes, trailing)
			if res.kind != "done" || !sameCbs(exp, res.cbs) {
				c.Violate("boundaries", "callbacks of a well-formed stream are not at the mdat ends / init flag wrong",
					[]string{line}, map[string]string{"expected": parseOut{kind: "done", cbs: exp}.String(), "got": res.String()})
			}
		}
		// delivered as soon as complete: the callback for a chunk runs before the parser asks the reader for anything more
		// (a live sender blocks there until the next chunk exists)
		if res.kind == "done" && fr == "-" && fc == "-" && wellFormed {
			for ci, cb := range res.cbs {
				end := int(cb.start) + len(cb.data)
				// (only chunks that end with a media-data box with payload: trailing bytes are delivered at EOF, and a
				// media-data box of 8 bytes is complete with its header)
				realMdat := false
				for _, b := range boxes {
					if b.typ == "mdat" && b.off+b.size == end && b.size > 8 {
						realMdat = true
					}
				}
				if !realMdat {
					continue
				}
				j := 0
				for j < len(res.readEnds) && res.readEnds[j] < end {
					j++
				}
				if j < len(res.readEnds) && cb.callsAtCb > j+1 {
					c.Violate("callback-late", fmt.Sprintf("chunk %d (bytes %d..%d) was complete after Read call %d, but its callback ran only after %d calls: the parser asked for more data first", ci, cb.start, end, j+1, cb.callsAtCb),
						[]string{line}, nil)
					break
				}
			}
		}
		// schedule/buffer independence (relational): same stream, other schedule, EOF style and buffer size
		if fr == "-" && fc == "-" && i%3 == 0 {
			sched2, _ := c18Sched(r, len(stream), boxes)
			line2 := fmt.Sprintf("parse %s %s %d - -", hx, sched2, 1-eof)
			res2 := runParseFromLine(line2, r.Pick(0, 4, 1024, len(stream), -16, -1024, -(len(stream)/2+1), -100))
			if res2.kind == res.kind && res.kind == "done" && !sameCbs(res.cbs, res2.cbs) {
				if !endsWithTinyMoov(stream) {
					c.Violate("sched-dependent", "callbacks depend on the read schedule / EOF style / buffer size",
						[]string{line, line2}, map[string]string{"a": res.String(), "b": res2.String()})
				} else {
					c.Count("tiny-moov-at-end")
				}
			}
			if res2.kind != res.kind {
				c.Violate("sched-dependent-outcome", "outcome class depends on the read schedule",
					[]string{line, line2}, map[string]string{"a": res.String(), "b": res2.String()})
			}
		}
	}
	// a few real segments (init + media of a bundled asset), bytewise and random schedules
	for _, p := range []string{"V300/init.mp4", "V300/1.m4s", "A48/init.mp4", "A48/1.m4s"} {
		b, err := readAsset("testpic_2s/" + p)
		if err != nil {
			c.Count("asset-missing")
			continue
		}
		if len(b) > 6000 && !c.Thorough() {
			b = b[:6000] // truncated real segment
		}
		sched, _ := c18Sched(r, len(b), nil)
		c.Emit(fmt.Sprintf("parse %s %s %d - -", hex.EncodeToString(b), sched, r.Intn(2)), true)
		c.Count("real-segment")
	}
	c18BigBoxes(c)
}

// c18BigBoxes: boxes larger than the parser's buffer growth step (1 MiB): the same callbacks for every partition of the
// reads (one read, 1 MiB, 64 KiB, odd sizes) and every initial buffer size; monitor only (the streams are too long for
// the op protocol).
func c18BigBoxes(c *Ctx) {
	r := c.Rng
	for _, P := range []int{1 << 20, 1<<20 + 1, 3 << 19, 3 << 20} {
		if P > 2<<20 && !c.Thorough() && r.Intn(2) == 0 {
			continue
		}
		mk := func(n int) []byte {
			b := make([]byte, n)
			for i := range b {
				b[i] = byte(i*7 + n)
			}
			return b
		}
		stream := append([]byte{}, mkBox("styp", mk(16))...)
		stream = append(stream, mkBox("moof", mk(100))...)
		stream = append(stream, mkBox("mdat", mk(P))...)
		stream = append(stream, mkBox("moof", mk(100))...)
		stream = append(stream, mkBox("mdat", mk(500))...)
		tag := fmt.Sprintf("# parse styp moof mdat(%d) moof mdat(500)", P)
		var ref *parseOut
		refName := ""
		for _, sc := range []struct {
			name  string
			step  int
			bufSz int
		}{{"one read, buffer 1024", 0, 1024}, {"one read, buffer = stream", 0, len(stream)}, {"1 MiB reads", 1 << 20, 1024}, {"64 KiB reads", 1 << 16, 1024},
			{"1000003-byte reads", 1000003, 4096}, {"7-byte and 1 MiB reads", -1, 1024}} {
			var sched []int
			switch {
			case sc.step > 0:
				for k := 0; k < len(stream)/sc.step+2; k++ {
					sched = append(sched, sc.step)
				}
			case sc.step < 0:
				for k := 0; k < 40; k++ {
					sched = append(sched, 7, 1<<20)
				}
			}
			out := runParse(stream, sched, r.Intn(2) == 0, -1, -1, sc.bufSz)
			c.Count("big-box-parses")
			var all []byte
			for _, cb := range out.cbs {
				all = append(all, cb.data...)
			}
			switch {
			case out.kind != "done":
				c.Violate("big-box", fmt.Sprintf("%s: a valid stream with a %d-byte mdat ends with %s", sc.name, P, out.kind), []string{tag}, nil)
			case len(out.cbs) != 2 || !bytes.Equal(all, stream):
				lens := []int{}
				for _, cb := range out.cbs {
					lens = append(lens, len(cb.data))
				}
				c.Violate("big-box", fmt.Sprintf("%s: %d callbacks with lengths %v (concatenation equals the input: %v), want one per complete mdat", sc.name, len(out.cbs), lens, bytes.Equal(all, stream)), []string{tag}, nil)
			case ref != nil && !sameCbs(ref.cbs, out.cbs):
				c.Violate("big-box", fmt.Sprintf("callbacks differ between '%s' and '%s'", refName, sc.name), []string{tag}, nil)
			}
			if ref == nil && out.kind == "done" {
				o := out
				ref, refName = &o, sc.name
			}
		}
	}
}

// hugeBox walks the size fields like any box reader would and reports a reachable size above 16 MiB
// that is not refused by the wrap guard (generator-side filter only).
func hugeBox(s []byte) bool {
	pos := uint64(0)
	for pos+8 <= uint64(len(s)) {
		size := uint64(binary.BigEndian.Uint32(s[pos:]))
		if size < 8 {
			return false
		}
		if size > 1<<24 {
			return pos+size < 1<<32 || pos > 1<<20
		}
		pos += size
	}
	return false
}

func mdatBefore(boxes []boxInfo, off int) bool {
	for _, b := range boxes {
		if b.typ == "mdat" && b.off < off {
			return true
		}
	}
	return false
}

func endsWithTinyMoov(s []byte) bool {
	// degenerate stream whose last 8 bytes are an empty `moov` header (see DESIGN.md, C18)
	return len(s) >= 8 && string(s[len(s)-4:]) == "moov"
}

func sameCbs(a, b []cbRec) bool {
	if len(a) != len(b) {
		return false
	}
	for i := range a {
		if a[i].start != b[i].start || a[i].isInit != b[i].isInit || !bytes.Equal(a[i].data, b[i].data) {
			return false
		}
	}
	return true
}

func runParseFromLine(line string, bufSize int) parseOut {
	a := strings.Fields(line)[1:]
	var in []byte
	if a[0] != "-" {
		in, _ = hex.DecodeString(a[0])
	}
	return runParse(in, parseIntList(a[1]), a[2] == "1", optInt(a[3]), optInt(a[4]), bufSize)
}

func readAsset(rel string) ([]byte, error) {
	return os.ReadFile("/repo/cmd/livesim2/app/testdata/assets/" + rel)
}
