package main

// C17, receiver level, on the repository's own ingest recordings (cmd/cmaf-ingest-receiver/app/testdata): channels with
// several video tracks, audio and subtitle tracks whose timescale the receiver rewrites (text → 1000) and whose sample
// durations are written per sample.  After every round the timeline MPD is compared with the stored files: every
// listed number is stored, and its S@t / S@d are the decode time and duration of the stored segment.

import (
	"bytes"
	"context"
	"fmt"
	"os"
	"path/filepath"
	"sort"
	"strings"
	"time"

	recv "github.com/Dash-Industry-Forum/livesim2/cmd/cmaf-ingest-receiver/app"
	"github.com/Eyevinn/mp4ff/mp4"
)

func recvTestdata() string { return filepath.Join(repoRoot(), "cmd/cmaf-ingest-receiver/app/testdata") }

// storedTimes returns decode time and duration of a stored media segment.
func storedTimes(path string) (uint64, uint64, error) { return storedTimesDef(path, 0) }

// storedTimesDef: trexDef is the default sample duration of the init segment's trex box (used when neither tfhd nor trun
// carries one).
func storedTimesDef(path string, trexDef uint32) (uint64, uint64, error) {
	b, err := os.ReadFile(path)
	if err != nil {
		return 0, 0, err
	}
	f, err := mp4.DecodeFile(bytes.NewReader(b))
	if err != nil || len(f.Segments) == 0 || len(f.Segments[0].Fragments) == 0 {
		return 0, 0, fmt.Errorf("unparsable")
	}
	var dur uint64
	for _, fr := range f.Segments[0].Fragments {
		def := trexDef
		if fr.Moof.Traf.Tfhd.HasDefaultSampleDuration() {
			def = fr.Moof.Traf.Tfhd.DefaultSampleDuration
		}
		dur += fr.Moof.Traf.Trun.Duration(def)
	}
	return f.Segments[0].Fragments[0].Moof.Traf.Tfdt.BaseMediaDecodeTime(), dur, nil
}

// c17MpdMatchesStored compares the timeline MPD on disk with the stored files.
func c17MpdMatchesStored(chDir string) string {
	mb, err := os.ReadFile(filepath.Join(chDir, "manifest_timeline_nr.mpd"))
	if err != nil {
		return ""
	}
	m, err := parseMPD(mb)
	if err != nil || len(m.Periods) != 1 {
		return "the timeline MPD does not parse"
	}
	for i := range m.Periods[0].Sets {
		as := &m.Periods[0].Sets[i]
		if as.SegmentTemplate == nil || as.SegmentTemplate.StartNumber == nil {
			continue
		}
		sn := int(*as.SegmentTemplate.StartNumber)
		tl := expandTL(as.SegmentTemplate)
		for _, rp := range as.Representations {
			ext := ""
			ents, _ := os.ReadDir(filepath.Join(chDir, rp.ID))
			for _, e := range ents {
				if mm := mediaFileRe.FindStringSubmatch(e.Name()); mm != nil {
					ext = filepath.Ext(e.Name())
				}
			}
			for j, e := range tl {
				t, d, err := storedTimes(filepath.Join(chDir, rp.ID, fmt.Sprintf("%d%s", sn+j, ext)))
				if err != nil {
					return fmt.Sprintf("the timeline MPD lists number %d for %s, which is not stored (%v)", sn+j, rp.ID, err)
				}
				if t != e[0] || d != e[1] {
					return fmt.Sprintf("the timeline MPD lists number %d of %s as (t=%d, d=%d), the stored segment has (t=%d, d=%d)", sn+j, rp.ID, e[0], e[1], t, d)
				}
			}
		}
	}
	return ""
}

func c17Bundled(r *Rng, viol func(kind, what string, ops []string, _ any), count func(string), setTag func(string)) {
	chName := r.PickS("zero_3.84s", "awsMediaLiveScte35")
	src := filepath.Join(recvTestdata(), chName)
	trs, err := os.ReadDir(src)
	if err != nil {
		return
	}
	dir, err := os.MkdirTemp(workDir(), "c17bundled")
	if err != nil {
		return
	}
	defer os.RemoveAll(dir)
	ctx, cancel := context.WithCancel(context.Background())
	defer cancel()
	h, err := recv.VerifNewRouter(ctx, dir, 30, 0, nil, false)
	if err != nil {
		return
	}
	type trk struct {
		name, ext string
		nrs       []int
	}
	var tracks []trk
	for _, t := range trs {
		if !t.IsDir() {
			continue
		}
		tk := trk{name: t.Name()}
		files, _ := os.ReadDir(filepath.Join(src, t.Name()))
		for _, f := range files {
			if mm := mediaFileRe.FindStringSubmatch(f.Name()); mm != nil {
				var n int
				fmt.Sscan(mm[1], &n)
				tk.nrs = append(tk.nrs, n)
				tk.ext = filepath.Ext(f.Name())
			}
		}
		sort.Ints(tk.nrs)
		if len(tk.nrs) > 0 {
			tracks = append(tracks, tk)
		}
	}
	if len(tracks) == 0 {
		return
	}
	order := r.Intn(3)
	tag := fmt.Sprintf("# receiver run on the bundled recording %s: %d tracks, arrival order %d", chName, len(tracks), order)
	setTag(tag)
	count("receiver-bundled-runs")
	put := func(path string, body []byte) bool {
		code, p := c19Put(h, c19Upload{path, body})
		if p != "" || code >= 500 {
			viol("receiver-upload", fmt.Sprintf("PUT %s: %d %s", path, code, p), []string{tag, "# PUT " + path}, nil)
			return false
		}
		return true
	}
	for _, t := range tracks {
		for _, iname := range []string{"init" + t.ext, "init_org" + t.ext} {
			if b, err := os.ReadFile(filepath.Join(src, t.name, iname)); err == nil {
				if !put(fmt.Sprintf("/upload/%s/%s/init%s", chName, t.name, t.ext), b) {
					return
				}
				break
			}
		}
	}
	n := len(tracks[0].nrs)
	for _, t := range tracks {
		if len(t.nrs) < n {
			n = len(t.nrs)
		}
	}
	for k := 0; k < n; k++ {
		idx := make([]int, len(tracks))
		for i := range idx {
			idx[i] = i
		}
		switch order {
		case 1:
			sort.Sort(sort.Reverse(sort.IntSlice(idx)))
		case 2:
			for i := len(idx) - 1; i > 0; i-- {
				j := r.Intn(i + 1)
				idx[i], idx[j] = idx[j], idx[i]
			}
		}
		for _, ti := range idx {
			t := tracks[ti]
			b, err := os.ReadFile(filepath.Join(src, t.name, fmt.Sprintf("%d%s", t.nrs[k], t.ext)))
			if err != nil {
				return
			}
			if !put(fmt.Sprintf("/upload/%s/%s/%d%s", chName, t.name, t.nrs[k], t.ext), b) {
				return
			}
			time.Sleep(3 * time.Millisecond)
		}
		time.Sleep(25 * time.Millisecond)
		if what := c17MpdMatchesStored(filepath.Join(dir, chName)); what != "" {
			viol("listed-times-stored", fmt.Sprintf("after round %d: %s", k, what), []string{tag}, nil)
			return
		}
		count("receiver-bundled-rounds")
	}
	waitFor(3*time.Second, func() bool {
		_, err := os.Stat(filepath.Join(dir, chName, "manifest_timeline_nr.mpd"))
		return err == nil
	})
	if _, err := os.Stat(filepath.Join(dir, chName, "manifest_timeline_nr.mpd")); err != nil && n >= 4 {
		viol("mpd-stale", fmt.Sprintf("no timeline MPD after %d complete rounds", n), []string{tag}, nil)
	}
	_ = strings.TrimSpace
}
