package main

// C13 through the handler: with scte35_N the video segments carry exactly the emsg that CreateEmsgAhead gives for their
// interval, no other representation (audio, text, thumbnails, generated subtitles) carries one, and the MPD announces
// the in-band event stream on the video AdaptationSets (and on no other).

import (
	"bytes"
	"encoding/binary"
	"fmt"
	"strconv"
	"strings"

	"github.com/Dash-Industry-Forum/livesim2/pkg/scte35"
)

const scteScheme = "urn:scte:scte35:2013:bin"

// topEmsgs scans the top-level boxes of a body (no mp4 library) and returns the number of emsg boxes with the
// SCTE-35 scheme and the presentation times (version 1) found in them.
func topEmsgs(b []byte) (n int, pts []uint64) {
	for len(b) >= 8 {
		size := uint64(binary.BigEndian.Uint32(b[:4]))
		hdr := uint64(8)
		if size == 1 && len(b) >= 16 {
			size = binary.BigEndian.Uint64(b[8:16])
			hdr = 16
		}
		if size < hdr || size > uint64(len(b)) {
			return
		}
		if string(b[4:8]) == "emsg" && bytes.Contains(b[hdr:size], []byte(scteScheme)) {
			n++
			if b[hdr] == 1 && size >= hdr+16 {
				pts = append(pts, binary.BigEndian.Uint64(b[hdr+8:hdr+16]))
			}
		}
		b = b[size:]
	}
	return
}

// scteEmsgs returns the SCTE-35 emsg boxes (version 1) at the top level of a body, decoded without the mp4 library:
// timescale, presentation time, event duration, id, message data.
type rawEmsg struct {
	timescale, dur, id uint32
	pt                 uint64
	msg                []byte
}

func scteEmsgs(b []byte) (out []rawEmsg) {
	for len(b) >= 8 {
		size := uint64(binary.BigEndian.Uint32(b[:4]))
		hdr := uint64(8)
		if size == 1 && len(b) >= 16 {
			size = binary.BigEndian.Uint64(b[8:16])
			hdr = 16
		}
		if size < hdr || size > uint64(len(b)) {
			return
		}
		if string(b[4:8]) == "emsg" && bytes.Contains(b[hdr:size], []byte(scteScheme)) && b[hdr] == 1 && size >= hdr+24 {
			p := b[hdr+4 : size]
			e := rawEmsg{timescale: binary.BigEndian.Uint32(p[0:4]), pt: binary.BigEndian.Uint64(p[4:12]), dur: binary.BigEndian.Uint32(p[12:16]), id: binary.BigEndian.Uint32(p[16:20])}
			rest := p[20:]
			for k := 0; k < 2; k++ { // scheme_id_uri and value, zero-terminated
				if i := bytes.IndexByte(rest, 0); i >= 0 {
					rest = rest[i+1:]
				}
			}
			e.msg = rest
			out = append(out, e)
		}
		b = b[size:]
	}
	return
}

// c13Interleaved: clients of streams with different events-per-minute settings ask for the segment that announces the
// same splice one after the other (the :10 splice is common to N = 1, 2, 3 but lasts 20 s for N = 1 and 10 s otherwise):
// each gets the event of its own setting, with event duration, break duration, ids and PTS consistent, whatever was
// asked just before — through the handler, in whole-segment and in chunked low-latency mode.
func c13Interleaved(c *Ctx) {
	getServer()
	for _, name := range []string{"testpic_2s", "testpic_6s", "testpic_8s"} {
		a := findVAsset(name)
		if a == nil {
			continue
		}
		ref := refRepOf(a)
		if ref == nil || ref.ContentType != "video" {
			continue
		}
		T := uint64(ref.MediaTimescale)
		for _, ll := range []string{"", "ato_1/chunkdur_0.5/"} {
			for _, minute := range []int{5, 6, 61} {
				ann := uint64(60*minute+10-7) * T // announce instant of the :10 splice
				// the segment whose interval (start, end] contains the announce instant
				k := 0
				for ; k < 100000; k++ {
					e := expectSeg(a, ref, k, 0)
					if e.start < ann && ann <= e.end {
						break
					}
				}
				e := expectSeg(a, ref, k, 0)
				av, _ := availMS(e, int(T), 0, 0)
				for _, N := range []int{1, 2, 3, 1, 3, 2, 1} {
					u := fmt.Sprintf("/livesim2/scte35_%d/%s%s/%s?nowMS=%d", N, ll, a.AssetPath, strings.ReplaceAll(ref.MediaURI, "$Number$", strconv.Itoa(e.nr)), av+int64(a.SegmentDurMS)+77)
					if strings.Contains(ref.MediaURI, "$Time$") {
						continue
					}
					res := doLive("GET", u)
					c.Count("scte-interleaved")
					if res.code != 200 {
						c.Violate("scte-interleaved", fmt.Sprintf("segment announcing the :10 splice of minute %d: status %d", minute, res.code), []string{"# GET " + u}, nil)
						continue
					}
					ems := scteEmsgs(res.body)
					if len(ems) != 1 {
						c.Violate("scte-video-seg", fmt.Sprintf("video segment (%d,%d] T=%d N=%d announcing the :10 splice of minute %d carries %d SCTE-35 emsg, the schedule gives 1", e.start, e.end, T, N, minute, len(ems)), []string{"# GET " + u}, nil)
						continue
					}
					em := ems[0]
					ad := uint64(10)
					if N == 1 {
						ad = 20
					}
					si, ok := decodeSpliceInfo(em.msg)
					wantPT := uint64(60*minute+10) * T
					switch {
					case !ok || !si.lenOK || !si.crcOK:
						c.Violate("section-malformed", "splice_info_section in the served emsg does not decode / wrong CRC", []string{"# GET " + u}, nil)
					case em.pt != wantPT || uint64(em.timescale) != T:
						c.Violate("scte-video-seg", fmt.Sprintf("emsg presentation time %d / timescale %d, want %d / %d", em.pt, em.timescale, wantPT, T), []string{"# GET " + u}, nil)
					case uint64(em.dur) != ad*T || si.breakDur != ad*90000:
						c.Violate("fields-duration", fmt.Sprintf("scte35_%d: emsg event duration %d (T=%d), break duration %d (90 kHz): want %d s for both (the request before this one was for another events-per-minute setting)", N, em.dur, T, si.breakDur, ad), []string{"# GET " + u}, nil)
					case uint64(em.id) != uint64(60*minute+10) || si.eventID != uint64(em.id) || si.ptsTime != wantPT*90000/T%(1<<33):
						c.Violate("fields-pts-id", fmt.Sprintf("ids (%d,%d) / pts %d inconsistent with splice second %d", em.id, si.eventID, si.ptsTime, 60*minute+10), []string{"# GET " + u}, nil)
					}
				}
			}
		}
	}
}

func c13Handler(c *Ctx) {
	getServer()
	r := c.Rng
	c13Interleaved(c)
	for ai := range vAssets {
		a := &vAssets[ai]
		ref := refRepOf(a)
		if ref == nil || ref.ContentType != "video" || len(a.MPDs) == 0 {
			continue
		}
		if strings.HasPrefix(a.AssetPath, "WAVE") && !c.Thorough() {
			continue
		}
		n := len(ref.Segments)
		T := ref.MediaTimescale
		for _, N := range []int{1, 2, 3} {
			cf := fmt.Sprintf("scte35_%d/", N)
			if r.Intn(3) == 0 {
				cf += r.PickS("segtimeline_1/", "timesubsstpp_en/", "timesubswvtt_en/", "ato_1/", "ato_1/chunkdur_0.5/", "segtimeline_1/ato_1/chunkdur_1/")
			}
			// a start time: the schedule is on the media timeline (zero at availabilityStartTime), like tfdt
			startS := r.Pick(0, 0, 600, 1000, 7)
			if startS != 0 {
				cf += fmt.Sprintf("start_%d/", startS)
			}
			// MPD announcement
			for _, mpd := range a.MPDs {
				u := fmt.Sprintf("/livesim2/%s%s/%s?nowMS=%d", cf, a.AssetPath, mpd, int64(startS)*1000+int64(a.LoopDurMS)*2+1234)
				res := doLive("GET", u)
				c.Count("scte-mpd")
				m, err := parseMPD(res.body)
				if res.code != 200 || err != nil || len(m.Periods) == 0 {
					c.Violate("scte-mpd", fmt.Sprintf("MPD with scte35_%d: %d", N, res.code), []string{"# GET " + u}, nil)
					continue
				}
				for _, as := range m.Periods[0].Sets {
					has := false
					for _, d := range as.Inband {
						has = has || d.SchemeIdUri == scteScheme
					}
					isVideo := as.ContentType == "video" || strings.HasPrefix(as.MimeType, "video")
					if isVideo && !has {
						c.Violate("scte-not-announced", "video AdaptationSet without InbandEventStream "+scteScheme, []string{"# GET " + u}, nil)
					}
					if !isVideo && has {
						c.Violate("scte-announced-elsewhere", fmt.Sprintf("AdaptationSet %s/%s announces the SCTE-35 event stream", as.ContentType, as.MimeType), []string{"# GET " + u}, nil)
					}
				}
			}
			// one minute of segments from a random position, every representation
			k0 := r.Pick(0, n, 3*n+r.Intn(5*n))
			for k := k0; ; k++ {
				e := expectSeg(a, ref, k, 0)
				if (e.start-expectSeg(a, ref, k0, 0).start)/uint64(T) > 70 || k-k0 > 80 {
					break
				}
				av, _ := availMS(e, T, startS, 0)
				q := fmt.Sprintf("?nowMS=%d", av+int64(a.SegmentDurMS)+int64(r.Intn(500)))
				want, werr := scte35.CreateEmsgAhead(e.start, e.end, uint64(T), N)
				for ri := range a.Reps {
					rp := &a.Reps[ri]
					id := strconv.Itoa(e.nr)
					if strings.Contains(rp.MediaURI, "$Time$") {
						continue // addressed by number in this monitor
					}
					u := "/livesim2/" + cf + a.AssetPath + "/" + strings.ReplaceAll(rp.MediaURI, "$Number$", id) + q
					res := doLive("GET", u)
					c.Count("scte-seg-" + rp.ContentType)
					if res.code != 200 {
						continue // availability is C01/C04's business (audio tails, etc.)
					}
					got, pts := topEmsgs(res.body)
					switch {
					case rp.ContentType != "video" && got != 0:
						c.Violate("scte-other-rep", fmt.Sprintf("%s representation %s carries %d SCTE-35 emsg", rp.ContentType, rp.ID, got), []string{"# GET " + u}, nil)
					case rp.ContentType == "video" && rp.MediaTimescale == T && werr == nil:
						wn := 0
						if want != nil {
							wn = 1
						}
						if got != wn || (wn == 1 && (len(pts) != 1 || pts[0] != want.PresentationTime)) {
							c.Violate("scte-video-seg", fmt.Sprintf("video segment (%d,%d] T=%d N=%d carries %d emsg %v, the schedule gives %d", e.start, e.end, T, N, got, pts, wn), []string{"# GET " + u}, nil)
						}
					}
				}
				if strings.Contains(cf, "timesubs") {
					kind := "timestpp-en"
					if strings.Contains(cf, "wvtt") {
						kind = "timewvtt-en"
					}
					u := fmt.Sprintf("/livesim2/%s%s/%s/%d.m4s%s", cf, a.AssetPath, kind, e.nr, q)
					res := doLive("GET", u)
					c.Count("scte-seg-timesubs")
					if got, _ := topEmsgs(res.body); res.code == 200 && got != 0 {
						c.Violate("scte-other-rep", fmt.Sprintf("generated subtitle segment carries %d SCTE-35 emsg", got), []string{"# GET " + u}, nil)
					}
				}
			}
		}
	}
}
