package main

// C13 through the handler: with scte35_N the video segments carry exactly the emsg that CreateEmsgAhead gives for their
// interval, no other representation (audio, text, thumbnails, generated subtitles) carries one, and the MPD announces
// the in-band event stream on the video AdaptationSets (and on no other).

import (
	"bytes"
	"encoding/binary"
	"fmt"
	"strconv"
	"strings"

	"github.com/Dash-Industry-Forum/livesim2/pkg/scte35"
)

const scteScheme = "urn:scte:scte35:2013:bin"

// topEmsgs scans the top-level boxes of a body (no mp4 library) and returns the number of emsg boxes with the
// SCTE-35 scheme and the presentation times (version 1) found in them.
func topEmsgs(b []byte) (n int, pts []uint64) {
	for len(b) >= 8 {
		size := uint64(binary.BigEndian.Uint32(b[:4]))
		hdr := uint64(8)
		if size == 1 && len(b) >= 16 {
			size = binary.BigEndian.Uint64(b[8:16])
			hdr = 16
		}
		if size < hdr || size > uint64(len(b)) {
			return
		}
		if string(b[4:8]) == "emsg" && bytes.Contains(b[hdr:size], []byte(scteScheme)) {
			n++
			if b[hdr] == 1 && size >= hdr+16 {
				pts = append(pts, binary.BigEndian.Uint64(b[hdr+8:hdr+16]))
			}
		}
		b = b[size:]
	}
	return
}

func c13Handler(c *Ctx) {
	getServer()
	r := c.Rng
	for ai := range vAssets {
		a := &vAssets[ai]
		ref := refRepOf(a)
		if ref == nil || ref.ContentType != "video" || len(a.MPDs) == 0 {
			continue
		}
		if strings.HasPrefix(a.AssetPath, "WAVE") && !c.Thorough() {
			continue
		}
		n := len(ref.Segments)
		T := ref.MediaTimescale
		for _, N := range []int{1, 2, 3} {
			cf := fmt.Sprintf("scte35_%d/", N)
			if r.Intn(3) == 0 {
				cf += r.PickS("segtimeline_1/", "timesubsstpp_en/", "timesubswvtt_en/", "ato_1/")
			}
			// a start time: the schedule is on the media timeline (zero at availabilityStartTime), like tfdt
			startS := r.Pick(0, 0, 600, 1000, 7)
			if startS != 0 {
				cf += fmt.Sprintf("start_%d/", startS)
			}
			// MPD announcement
			for _, mpd := range a.MPDs {
				u := fmt.Sprintf("/livesim2/%s%s/%s?nowMS=%d", cf, a.AssetPath, mpd, int64(startS)*1000+int64(a.LoopDurMS)*2+1234)
				res := doLive("GET", u)
				c.Count("scte-mpd")
				m, err := parseMPD(res.body)
				if res.code != 200 || err != nil || len(m.Periods) == 0 {
					c.Violate("scte-mpd", fmt.Sprintf("MPD with scte35_%d: %d", N, res.code), []string{"# GET " + u}, nil)
					continue
				}
				for _, as := range m.Periods[0].Sets {
					has := false
					for _, d := range as.Inband {
						has = has || d.SchemeIdUri == scteScheme
					}
					isVideo := as.ContentType == "video" || strings.HasPrefix(as.MimeType, "video")
					if isVideo && !has {
						c.Violate("scte-not-announced", "video AdaptationSet without InbandEventStream "+scteScheme, []string{"# GET " + u}, nil)
					}
					if !isVideo && has {
						c.Violate("scte-announced-elsewhere", fmt.Sprintf("AdaptationSet %s/%s announces the SCTE-35 event stream", as.ContentType, as.MimeType), []string{"# GET " + u}, nil)
					}
				}
			}
			// one minute of segments from a random position, every representation
			k0 := r.Pick(0, n, 3*n+r.Intn(5*n))
			for k := k0; ; k++ {
				e := expectSeg(a, ref, k, 0)
				if (e.start-expectSeg(a, ref, k0, 0).start)/uint64(T) > 70 || k-k0 > 80 {
					break
				}
				av, _ := availMS(e, T, startS, 0)
				q := fmt.Sprintf("?nowMS=%d", av+int64(a.SegmentDurMS)+int64(r.Intn(500)))
				want, werr := scte35.CreateEmsgAhead(e.start, e.end, uint64(T), N)
				for ri := range a.Reps {
					rp := &a.Reps[ri]
					id := strconv.Itoa(e.nr)
					if strings.Contains(rp.MediaURI, "$Time$") {
						continue // addressed by number in this monitor
					}
					u := "/livesim2/" + cf + a.AssetPath + "/" + strings.ReplaceAll(rp.MediaURI, "$Number$", id) + q
					res := doLive("GET", u)
					c.Count("scte-seg-" + rp.ContentType)
					if res.code != 200 {
						continue // availability is C01/C04's business (audio tails, etc.)
					}
					got, pts := topEmsgs(res.body)
					switch {
					case rp.ContentType != "video" && got != 0:
						c.Violate("scte-other-rep", fmt.Sprintf("%s representation %s carries %d SCTE-35 emsg", rp.ContentType, rp.ID, got), []string{"# GET " + u}, nil)
					case rp.ContentType == "video" && rp.MediaTimescale == T && werr == nil:
						wn := 0
						if want != nil {
							wn = 1
						}
						if got != wn || (wn == 1 && (len(pts) != 1 || pts[0] != want.PresentationTime)) {
							c.Violate("scte-video-seg", fmt.Sprintf("video segment (%d,%d] T=%d N=%d carries %d emsg %v, the schedule gives %d", e.start, e.end, T, N, got, pts, wn), []string{"# GET " + u}, nil)
						}
					}
				}
				if strings.Contains(cf, "timesubs") {
					kind := "timestpp-en"
					if strings.Contains(cf, "wvtt") {
						kind = "timewvtt-en"
					}
					u := fmt.Sprintf("/livesim2/%s%s/%s/%d.m4s%s", cf, a.AssetPath, kind, e.nr, q)
					res := doLive("GET", u)
					c.Count("scte-seg-timesubs")
					if got, _ := topEmsgs(res.body); res.code == 200 && got != 0 {
						c.Violate("scte-other-rep", fmt.Sprintf("generated subtitle segment carries %d SCTE-35 emsg", got), []string{"# GET " + u}, nil)
					}
				}
			}
		}
	}
}
