package main

// C09, "with and without DRM": the chunked response of an encrypted (ClearKey cenc / cbcs) segment decrypts — with the
// served init segment and the licence key — to the same samples as the chunked clear response, chunk by chunk.

import (
	"encoding/base64"
	"encoding/hex"
	"fmt"
	"net/http/httptest"
	"strconv"
	"strings"

	"github.com/Dash-Industry-Forum/livesim2/cmd/livesim2/app"
	"github.com/Eyevinn/mp4ff/mp4"
)

func c09Drm(c *Ctx) {
	s := getServer()
	get := func(u string) fuzzRes { return serveGuarded(s.LiveRouter, httptest.NewRequest("GET", u, nil)) }
	for _, an := range []string{"testpic_2s", "testpic_8s"} {
		a := findVAsset(an)
		if a == nil {
			continue
		}
		ref := refRepOf(a)
		if ref == nil {
			continue
		}
		for ri := range a.Reps {
			rp := &a.Reps[ri]
			if rp.ContentType != "video" && rp.ContentType != "audio" {
				continue
			}
			for _, sch := range []string{"cenc", "cbcs"} {
				param := "eccp_" + sch
				base := "/livesim2/" + param + "/" + a.AssetPath + "/"
				ires := get(base + rp.InitURI + "?nowMS=100000")
				if ires.code != 200 {
					continue
				}
				encInit, _, kid, err := tencOf([]byte(ires.fullBody))
				if err != nil || kid == "" {
					continue
				}
				kb, _ := hex.DecodeString(kid)
				if len(kb) != 16 {
					continue
				}
				code, lr, p := postLicence(s, base+"eccp.json", []string{app.VerifPackBase64([16]byte(kb))})
				if p != "" || code != 200 || len(lr.Keys) != 1 {
					continue // the licence round trip is C10's business
				}
				key, _ := base64.RawURLEncoding.DecodeString(lr.Keys[0].K)
				di, err := mp4.DecryptInit(encInit)
				if err != nil {
					continue
				}
				trex := vodFiles(a, rp).trex
				n := len(ref.Segments)
				for _, k := range []int{n + 1, 3*n + 2, 20} {
					e := expectSeg(a, ref, k, 0)
					av, _ := availMS(e, ref.MediaTimescale, 0, 0)
					q := fmt.Sprintf("?nowMS=%d", av+int64(a.SegmentDurMS)+500)
					media := strings.ReplaceAll(rp.MediaURI, "$Number$", strconv.Itoa(e.nr))
					if strings.Contains(rp.MediaURI, "$Time$") {
						continue
					}
					atoMS := a.SegmentDurMS * 3 / 4 / 125 * 125
					chunked := fmt.Sprintf("ato_%g/chunkdur_0.25/", float64(atoMS)/1000)
					eu := "/livesim2/" + param + "/" + chunked + a.AssetPath + "/" + media + q
					cu := "/livesim2/" + chunked + a.AssetPath + "/" + media + q
					er, cr := get(eu), get(cu)
					c.Count("ll-drm-compared")
					if er.code != 200 || cr.code != 200 {
						c.Violate("ll-drm-not-served", fmt.Sprintf("encrypted chunked %d, clear chunked %d", er.code, cr.code), []string{"# GET " + eu}, nil)
						continue
					}
					if what := c10Compare([]byte(er.fullBody), []byte(cr.fullBody), di, key, trex); what != "" {
						c.Violate("ll-drm-payload", fmt.Sprintf("%s %s k=%d: the chunked %s response does not decrypt to the samples of the clear chunked response: %s", a.AssetPath, rp.ID, k, sch, what), []string{"# GET " + eu}, nil)
					}
				}
			}
		}
	}
}
