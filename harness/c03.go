package main

// C03: audio is re-segmented to follow video boundaries without loss or duplication.

import (
	"fmt"
	"regexp"
	"strconv"
	"strings"

	"github.com/Dash-Industry-Forum/livesim2/cmd/livesim2/app"
)

func init() { generators["C03"] = genC03 }

// ceilFrame: least multiple of fd that is >= refTime*audT/refT (exact).
func ceilFrame(refTime, refT, fd, audT uint64) uint64 {
	num := refTime * audT // / refT
	q := num / refT
	t := q / fd * fd
	if t*refT < num {
		t += fd
	}
	return t
}

var audioOutRe = regexp.MustCompile(`^200 nr=(\d+) tfdt=(\d+) n=(\d+) frames=(\S+)`)

func expandRanges(s string) []int {
	var out []int
	if s == "?" || s == "" {
		return nil
	}
	for _, p := range strings.Split(s, ",") {
		ab := strings.SplitN(p, "-", 2)
		if len(ab) != 2 {
			continue
		}
		a, _ := strconv.Atoi(ab[0])
		b, _ := strconv.Atoi(ab[1])
		for x := a; x <= b; x++ {
			out = append(out, x)
		}
	}
	return out
}

func genC03(c *Ctx) {
	c.emitAssetDefs()
	r := c.Rng
	for ai := range vAssets {
		a := &vAssets[ai]
		ref := refRepOf(a)
		if ref == nil || ref.ContentType != "video" {
			continue
		}
		for ri := range a.Reps {
			rep := &a.Reps[ri]
			if rep.ContentType != "audio" || rep.PreEncrypted || rep.ConstSampleDur == 0 {
				continue
			}
			fd := uint64(rep.ConstSampleDur)
			audT, refT := uint64(rep.MediaTimescale), uint64(ref.MediaTimescale)
			n := len(ref.Segments)
			// VoD audio frame count
			F := 0
			for _, s := range rep.Segments {
				F += int((s.EndTime - s.StartTime) / fd)
			}
			refDur := ref.Segments[n-1].EndTime - ref.Segments[0].StartTime
			var ks []int
			for k := 0; k < c.N(3*n+2, 12*n); k++ {
				ks = append(ks, k)
			}
			k0 := int(int64(1790000000000) / int64(a.LoopDurMS) * int64(n))
			for d := -1; d <= n+1; d++ {
				ks = append(ks, k0+d)
			}
			// segments whose start is no whole number of audio ticks while its floor lies exactly on a frame boundary (and the
			// same for one tick above): where a rounding slip in the video-to-audio mapping shows
			found := 0
			for k := 1; k < 40000 && found < 6; k++ {
				e := expectSeg(a, ref, k, 0)
				x := e.start * audT
				if x%refT != 0 && ((x/refT)%fd == 0 || (x/refT+1)%fd == 0) {
					ks = append(ks, k-1, k, k+1)
					found++
					c.Count("audio-boundary-coincidence-k")
				}
			}
			for _, cf := range []cfgVar{mkCfg(0, 60, 0, 0, "n"), mkCfg(0, 60, 0, 0, "tlt"), mkCfg(61, 30, 3, 0, "tln"), mkCfg(61, 30, 0, 0, "tlt")} {
				var prevK = -10
				var prevEnd uint64
				for _, k := range ks {
					e := expectSeg(a, ref, k, cf.startNr)
					av, _ := availMS(e, int(refT), cf.startS, 0)
					now := av + 1 + int64(r.Intn(3000))
					aStart := ceilFrame(e.start, refT, fd, audT)
					aEnd := ceilFrame(e.end, refT, fd, audT)
					id := strconv.Itoa(e.nr)
					if cf.mode == "tlt" {
						id = strconv.FormatUint(aStart, 10)
					}
					line := fmt.Sprintf("seg %s %s %s %s %d", a.AssetPath, cf.s, rep.ID, id, now)
					out := c.Emit(line, true)
					m := audioOutRe.FindStringSubmatch(out)
					if m == nil {
						kind := "audio-not-served"
						if strings.HasPrefix(out, "PANIC") {
							kind = "audio-panic"
						}
						c.Violate(kind, fmt.Sprintf("audio segment k=%d (ref [%d,%d)) requested %d ms after its availability: %s", k, e.start, e.end, now-av, out), []string{line}, nil)
						prevK = -10
						continue
					}
					nr, _ := strconv.Atoi(m[1])
					tfdt, _ := strconv.ParseUint(m[2], 10, 64)
					cnt, _ := strconv.ParseUint(m[3], 10, 64)
					switch {
					case nr != e.nr:
						c.Violate("audio-number", fmt.Sprintf("k=%d: sequence number %d, want %d", k, nr, e.nr), []string{line}, out)
					case tfdt != aStart:
						c.Violate("audio-start", fmt.Sprintf("k=%d: audio starts at %d, first frame boundary at/after the video start is %d", k, tfdt, aStart), []string{line}, out)
					case cnt*fd != aEnd-aStart:
						c.Violate("audio-count", fmt.Sprintf("k=%d: %d frames, (end-start)/frame = %d", k, cnt, (aEnd-aStart)/fd), []string{line}, out)
					case (tfdt*refT < e.start*audT) || (tfdt-aStart != 0):
						c.Violate("audio-late", "audio start before the video start", []string{line}, out)
					}
					if prevK+1 == k && prevEnd != tfdt {
						c.Violate("audio-abut", fmt.Sprintf("k=%d starts at %d, k-1 ended at %d", k, tfdt, prevEnd), []string{line}, out)
					}
					prevK, prevEnd = k, tfdt+cnt*fd
					// identity of every frame (generated assets)
					if m[4] != "?" {
						got := expandRanges(m[4])
						var want []int
						for t := aStart; t < aEnd; t += fd {
							// loop w with aWrap(w) <= t < aWrap(w+1)
							w := (t * refT / audT) / refDur
							for ceilFrame((w+1)*refDur, refT, fd, audT) <= t {
								w++
							}
							for w > 0 && ceilFrame(w*refDur, refT, fd, audT) > t {
								w--
							}
							j := int((t - ceilFrame(w*refDur, refT, fd, audT)) / fd)
							if j >= F {
								j = F - 1 // padding: only beyond the VoD audio
							}
							want = append(want, j)
						}
						if fmt.Sprint(got) != fmt.Sprint(want) {
							c.Violate("audio-frames", fmt.Sprintf("k=%d: frames %s, the looped source gives %s", k, m[4], rangesOf(want)), []string{line}, out)
						}
						c.Count("frames-identified")
					}
				}
			}
		}
	}
	c03Timeline(c)
	_ = app.DefaultConfig
}

// c03Timeline: "the audio SegmentTimeline in the MPD lists exactly these start times and durations".  The MPD is
// requested with SegmentTimeline addressing ($Time$ and $Number$) at instants over several loops; the op goes to the
// model (correspondence) and the monitor compares every audio entry with the frame-grid images of the video entry at
// the same position of the same document.
func c03Timeline(c *Ctx) {
	c.emitMpdDefs()
	for ai := range vAssets {
		a := &vAssets[ai]
		ref := refRepOf(a)
		if ref == nil || ref.ContentType != "video" || len(a.MPDs) == 0 {
			continue
		}
		name := a.MPDs[0]
		type job struct {
			cs   string
			now  int64
			emit bool
		}
		var jobs []job
		for _, cf := range []cfgVar{mkCfg(0, 60, 0, 0, "tlt"), mkCfg(61, 30, 3, 0, "tln"), mkCfg(0, 20, 0, 1500, "tlt")} {
			for _, now := range pickInstants(c, a, cf, c.N(5, 30)) {
				jobs = append(jobs, job{cf.s, now, true})
			}
			// split into periods: the window spans a period boundary that is no whole number of audio frames (odd minutes
			// for 1024-sample frames at 48 kHz); every Period's audio timeline follows that Period's video timeline
			if 60000%a.SegmentDurMS == 0 {
				for _, now := range []int64{1061000, 1021000 + int64(c.Rng.Intn(40000)), 1790000000000/120000*120000 + 61000, 1790000000000/120000*120000 + 60000 + int64(c.Rng.Intn(59000))} {
					jobs = append(jobs, job{withPeriods(cf.s, 60, false), now + int64(cf.startS)*1000, false})
				}
			}
		}
		for _, jb := range jobs {
			now := jb.now
			line := fmt.Sprintf("mpd %s %s %s %d", a.AssetPath, jb.cs, name, now)
			if jb.emit {
				if out := c.Emit(line, true); !strings.HasPrefix(out, "dynamic") {
					continue
				}
			} else {
				line = "# " + line
			}
			res := doLive("GET", mpdURL(a.AssetPath, jb.cs, name, strconv.FormatInt(now, 10)))
			mAll, err := parseMPD(res.body)
			if err != nil || res.code != 200 || (jb.emit && len(mAll.Periods) != 1) {
				continue
			}
			for pi := range mAll.Periods {
				m := &xMPD{Periods: []xPeriod{mAll.Periods[pi]}}
				if !jb.emit {
					c.Count("audio-timelines-periods")
				}
				var vtl [][2]uint64
				var vT uint64
				for i := range m.Periods[0].Sets {
					as := &m.Periods[0].Sets[i]
					if asContentType(as) == "video" && as.SegmentTemplate != nil && len(as.Representations) > 0 && as.Representations[0].ID == ref.ID {
						vtl = expandTL(as.SegmentTemplate)
						if as.SegmentTemplate.Timescale != nil {
							vT = *as.SegmentTemplate.Timescale
						}
					}
				}
				if len(vtl) == 0 || vT == 0 {
					continue
				}
				for i := range m.Periods[0].Sets {
					as := &m.Periods[0].Sets[i]
					if asContentType(as) != "audio" || as.SegmentTemplate == nil || len(as.Representations) == 0 {
						continue
					}
					var rep *app.VerifRep
					for ri := range a.Reps {
						if a.Reps[ri].ID == as.Representations[0].ID {
							rep = &a.Reps[ri]
						}
					}
					if rep == nil || rep.PreEncrypted || rep.ConstSampleDur == 0 {
						continue
					}
					fd, audT := uint64(rep.ConstSampleDur), uint64(rep.MediaTimescale)
					atl := expandTL(as.SegmentTemplate)
					c.Count("audio-timelines-compared")
					if len(atl) != len(vtl) {
						c.Violate("audio-timeline-length", fmt.Sprintf("audio timeline has %d entries, video timeline %d", len(atl), len(vtl)), []string{line}, nil)
						continue
					}
					for j := range vtl {
						ws := ceilFrame(vtl[j][0], vT, fd, audT)
						we := ceilFrame(vtl[j][0]+vtl[j][1], vT, fd, audT)
						if atl[j][0] != ws || atl[j][1] != we-ws {
							c.Violate("audio-timeline-entry", fmt.Sprintf("entry %d: audio (t=%d,d=%d), video (t=%d,d=%d)@%d gives (t=%d,d=%d)", j, atl[j][0], atl[j][1], vtl[j][0], vtl[j][1], vT, ws, we-ws), []string{line}, nil)
							break
						}
					}
				}
			}
		}
	}
}
