package main

// C01 (looped gap-free timeline, identity of payload, Number == Time) and C04 (425 -> 200 -> 410) generators and
// monitors over the `seg` op.

import (
	"fmt"
	"regexp"
	"strconv"
	"strings"

	"github.com/Dash-Industry-Forum/livesim2/cmd/livesim2/app"
)

func init() {
	generators["C01"] = genC01
	generators["C04"] = genC04
}

type segExpect struct {
	k       int    // index from availabilityStartTime
	nr      int    // startNr + k
	start   uint64 // media time of output segment
	end     uint64
	origNr  uint32
	availMS int64 // exact floor of availability instant in ms (ato = 0): startS*1000 + ceil? see availMSOf
}

// expectSeg is the harness' own statement of the property for segment k of rep r (independent of model and code).
func expectSeg(a *app.VerifAsset, r *app.VerifRep, k, startNr int) segExpect {
	n := len(r.Segments)
	wrapDur := uint64(a.LoopDurMS) * uint64(r.MediaTimescale) / 1000
	w := uint64(k / n)
	s := r.Segments[k%n]
	return segExpect{k: k, nr: startNr + k, start: w*wrapDur + s.StartTime, end: w*wrapDur + s.EndTime, origNr: s.Nr}
}

// availMS returns the first whole millisecond at which the segment is available (ato in ms) and whether the
// availability instant is an exact whole millisecond.
func availMS(e segExpect, T int, startS int, atoMS int) (int64, bool) {
	num := int64(e.end)*1000 - int64(atoMS)*int64(T) // avail * 1000 * T  (without startS)
	ms := num / int64(T)
	exact := num%int64(T) == 0
	if !exact && num > 0 {
		ms++ // first ms >= avail
	}
	return ms + int64(startS)*1000, exact
}

var segOutRe = regexp.MustCompile(`^200 nr=(\d+) tfdt=(\d+) dur=(\d+) orig=(\S+)`)

type cfgVar struct {
	s       string
	startS  int
	startNr int
	mode    string
	tsbd    int
	atoMS   int // -1 = inf
}

func mkCfg(startS, tsbd, snr int, atoMS int, mode string) cfgVar {
	var p []string
	if startS != 0 {
		p = append(p, fmt.Sprintf("start=%d", startS))
	}
	if tsbd != 60 {
		p = append(p, fmt.Sprintf("tsbd=%d", tsbd))
	}
	if snr != 0 {
		p = append(p, fmt.Sprintf("snr=%d", snr))
	}
	if atoMS > 0 {
		p = append(p, fmt.Sprintf("ato=%d", atoMS))
	} else if atoMS < 0 {
		p = append(p, "ato=inf")
	}
	if mode != "n" {
		p = append(p, "mode="+mode)
	}
	s := "-"
	if len(p) > 0 {
		s = strings.Join(p, ",")
	}
	return cfgVar{s: s, startS: startS, startNr: snr, mode: mode, tsbd: tsbd, atoMS: atoMS}
}

func nonAudioReps(a *app.VerifAsset) []*app.VerifRep {
	var out []*app.VerifRep
	for i := range a.Reps {
		r := &a.Reps[i]
		if r.ContentType == "audio" && !r.PreEncrypted {
			continue
		}
		if len(r.Segments) > 0 {
			out = append(out, r)
		}
	}
	return out
}

// segID returns the URL segment id for segment e under the addressing mode (images are always numbered).
func segIDFor(r *app.VerifRep, e segExpect, mode string) string {
	if mode == "tlt" && r.ContentType != "image" {
		return strconv.FormatUint(e.start, 10)
	}
	return strconv.Itoa(e.nr)
}

func genC01(c *Ctx) {
	c.emitAssetDefs()
	r := c.Rng
	for ai := range vAssets {
		a := &vAssets[ai]
		for _, rep := range nonAudioReps(a) {
			n := len(rep.Segments)
			T := rep.MediaTimescale
			// index sets: first loops, around each of the first wraps, far from epoch (2026, 2099: 64-bit tfdt at 90 kHz)
			var ks []int
			for k := 0; k < 2*n+2 && k < c.N(40, 400); k++ {
				ks = append(ks, k)
			}
			for w := 2; w <= c.N(3, 12); w++ {
				for d := -1; d <= 1; d++ {
					ks = append(ks, w*n+d)
				}
			}
			for _, yearS := range []int64{1790000000, 4070000000} {
				k0 := int(yearS * 1000 / int64(a.LoopDurMS) * int64(n))
				for d := -1; d <= n; d++ {
					ks = append(ks, k0+d+r.Intn(3))
				}
			}
			cfgs := []cfgVar{mkCfg(0, 60, 0, 0, "n"), mkCfg(0, 60, 0, 0, "tlt"), mkCfg(0, 60, 0, 0, "tln"),
				mkCfg(61, 60, 7, 0, "n"), mkCfg(61, 30, 1, 0, "tlt"), mkCfg(3, 60, 5, 0, "tln")}
			if c.Thorough() {
				cfgs = append(cfgs, mkCfg(1000, 10, 100000, 0, "n"), mkCfg(7, 300, 3, 0, "tlt"))
			}
			for _, cf := range cfgs {
				var prev *segExpect
				var prevTfdt, prevDur uint64
				for _, k := range ks {
					e := expectSeg(a, rep, k, cf.startNr)
					av, _ := availMS(e, T, cf.startS, 0)
					now := av + 1 + int64(r.Intn(5000))
					id := segIDFor(rep, e, cf.mode)
					line := fmt.Sprintf("seg %s %s %s %s %d", a.AssetPath, cf.s, rep.ID, id, now)
					out := c.Emit(line, true)
					c.Count("kind." + rep.ContentType)
					// ---- monitors ----
					if rep.ContentType == "image" {
						want := fmt.Sprintf("200 img orig=%d", e.origNr)
						if out != want {
							c.Violate("thumb-identity", fmt.Sprintf("thumbnail %d: got %q want %q", e.nr, out, want), []string{line}, nil)
						}
						continue
					}
					m := segOutRe.FindStringSubmatch(out)
					if m == nil {
						c.Violate("available-not-served", fmt.Sprintf("segment k=%d requested %d ms after its availability: %s", k, now-av, out), []string{line}, nil)
						prev = nil
						continue
					}
					nr, _ := strconv.Atoi(m[1])
					tfdt, _ := strconv.ParseUint(m[2], 10, 64)
					dur, _ := strconv.ParseUint(m[3], 10, 64)
					wantOrig := strconv.Itoa(int(e.origNr))
					switch {
					case nr != e.nr%(1<<32):
						c.Violate("seq-number", fmt.Sprintf("k=%d: sequence number %d, want %d", k, nr, e.nr), []string{line}, out)
					case tfdt != e.start:
						c.Violate("decode-time", fmt.Sprintf("k=%d: tfdt %d, want floor(k/N)*loop + VoD start = %d", k, tfdt, e.start), []string{line}, out)
					case dur != e.end-e.start:
						c.Violate("duration", fmt.Sprintf("k=%d: duration %d, VoD segment has %d", k, dur, e.end-e.start), []string{line}, out)
					case !strings.HasPrefix(rep.Codecs, "stpp") && m[4] != wantOrig:
						c.Violate("payload-identity", fmt.Sprintf("k=%d: samples are those of VoD segment %s, want %s", k, m[4], wantOrig), []string{line}, out)
					}
					if prev != nil && prev.k+1 == k && prevTfdt+prevDur != tfdt {
						c.Violate("gap", fmt.Sprintf("segment k=%d starts at %d but k=%d ended at %d", k, tfdt, prev.k, prevTfdt+prevDur), []string{line}, out)
					}
					ee := e
					prev, prevTfdt, prevDur = &ee, tfdt, dur
					// Number vs Time addressing give the same segment (relational)
					if cf.mode == "n" && k%3 == 0 {
						cfT := mkCfg(cf.startS, cf.tsbd, cf.startNr, 0, "tlt")
						lineT := fmt.Sprintf("seg %s %s %s %s %d", a.AssetPath, cfT.s, rep.ID, segIDFor(rep, e, "tlt"), now)
						outT := c.Emit(lineT, true)
						if outT != out {
							c.Violate("number-vs-time", fmt.Sprintf("k=%d: $Number$ gives %q, $Time$ gives %q", k, out, outT), []string{line, lineT}, nil)
						}
					}
				}
			}
		}
	}
	c01Ttml(c)
	genTtmlOps(c)
}

// availability sweep for C04
// c04BigNumbers: a segment number beyond 32 bits names no segment that exists or will exist in this century: it is not
// answered with the segment whose number it is congruent to modulo 2^32 (nor, later, with 410 for it).
func c04BigNumbers(c *Ctx) {
	for _, name := range []string{"testpic_2s", "testpic_8s"} {
		a := findVAsset(name)
		if a == nil {
			continue
		}
		for ri := range a.Reps {
			rp := &a.Reps[ri]
			if !strings.Contains(rp.MediaURI, "$Number$") {
				continue
			}
			for _, k := range []int64{25, 26, 40} {
				now := (k + 2) * int64(a.SegmentDurMS)
				for _, add := range []int64{1 << 32, 3 << 32} {
					u := fmt.Sprintf("/livesim2/%s/%s?nowMS=%d", a.AssetPath, strings.ReplaceAll(rp.MediaURI, "$Number$", strconv.FormatInt(k+add, 10)), now)
					res := doLive("GET", u)
					c.Count("big-number-requests")
					if res.code == 200 || res.code == 410 || res.panicked != "" {
						c.Violate("unexpected-status", fmt.Sprintf("segment number %d (= %d + k·2^32) of %s is answered %d %s: the number wrapped around to segment %d", k+add, k, rp.ID, res.code, res.panicked, k), []string{"# GET " + u}, nil)
					}
				}
			}
		}
	}
}

func genC04(c *Ctx) {
	c.emitAssetDefs()
	c04BigNumbers(c)
	r := c.Rng
	atos := []int{0, 500, 1500, 250, -1}
	tsbds := []int{0, 60, 10, 172800}
	for ai := range vAssets {
		a := &vAssets[ai]
		reps := nonAudioReps(a)
		// re-segmented audio follows the reference (video) grid: its availability is that of the reference segment
		ref := refRepOf(a)
		if ref != nil && ref.ContentType == "video" {
			for i := range a.Reps {
				ar := &a.Reps[i]
				if ar.ContentType == "audio" && !ar.PreEncrypted && ar.ConstSampleDur > 0 {
					reps = append(reps, ar)
					break
				}
			}
		}
		for ri, rep := range reps {
			isAudio := rep.ContentType == "audio" && !rep.PreEncrypted
			if !c.Thorough() && ri > 2 && !isAudio {
				continue
			}
			grid := rep
			if isAudio {
				grid = ref
			}
			n := len(grid.Segments)
			T := grid.MediaTimescale
			for ci := 0; ci < c.N(6, 40); ci++ {
				startS := r.Pick(0, 0, 61, 1000)
				snr := r.Pick(0, 0, 1, 5)
				mode := r.PickS("n", "tlt", "tln")
				ato := atos[r.Intn(len(atos))]
				if ato < 0 && mode != "n" {
					ato = 0 // infinite ato is only accepted with $Number$
				}
				if r.Intn(6) == 0 {
					ato = a.SegmentDurMS + 500 // larger than a segment
				}
				tsbd := tsbds[r.Intn(len(tsbds))]
				cf := mkCfg(startS, tsbd, snr, ato, mode)
				k := r.Pick(0, 1, n-1, n, 2*n+1, 3*n+r.Intn(n), 1000+r.Intn(50))
				e := expectSeg(a, grid, k, snr)
				id := segIDFor(rep, e, mode)
				if isAudio && mode == "tlt" {
					id = strconv.FormatUint(ceilFrame(e.start, uint64(T), uint64(rep.ConstSampleDur), uint64(rep.MediaTimescale)), 10)
				}
				atoEff := ato
				if ato < 0 {
					atoEff = 0
				}
				av, exact := availMS(e, T, startS, atoEff)
				goneAt := av + int64(tsbd+10)*1000 // last ms (inclusive when exact) at which it is still available
				var nows []int64
				for d := int64(-2); d <= 2; d++ {
					nows = append(nows, av+d, goneAt+d)
				}
				nows = append(nows, int64(startS)*1000, int64(startS)*1000-1, av-int64(r.Intn(100000)), av+int64(r.Intn((tsbd+10)*1000+1)),
					goneAt+int64(r.Intn(100000))+3, av+int64(tsbd)*1000)
				// sort ascending to watch monotonicity
				for i := range nows {
					for j := i + 1; j < len(nows); j++ {
						if nows[j] < nows[i] {
							nows[i], nows[j] = nows[j], nows[i]
						}
					}
				}
				phase := 0 // 0 = 425, 1 = 200, 2 = 410
				for _, now := range nows {
					if now < 0 {
						continue
					}
					line := fmt.Sprintf("seg %s %s %s %s %d", a.AssetPath, cf.s, rep.ID, id, now)
					out := c.Emit(line, true)
					code := strings.Fields(out)[0]
					var ph int
					switch code {
					case "425":
						ph = 0
					case "200":
						ph = 1
					case "410":
						ph = 2
					default:
						c.Violate("unexpected-status", fmt.Sprintf("k=%d now=%d: %s", k, now, out), []string{line}, nil)
						continue
					}
					if ph < phase {
						c.Violate("phase-regression", fmt.Sprintf("k=%d: response went back from phase %d to %d at now=%d", k, phase, ph, now), []string{line}, out)
					}
					phase = ph
					// exact availability (a request before stream start is always too early)
					var want int
					switch {
					case now < int64(startS)*1000:
						want = 0
					case ato < 0:
						want = 1
					case now < av:
						want = 0
					case now < goneAt || (now == goneAt && exact):
						want = 1
					default:
						want = 2
					}
					tie := exact && now == goneAt && ato >= 0 // float tie zone at the gone boundary (DESIGN.md §3.2)
					// ... and at the availability instant with a non-zero offset: the float subtraction may round up ("425 ms=0")
					tieAvail := exact && now == av && ato > 0 && ph == 0 && strings.HasPrefix(out, "425 ms=0")
					if tieAvail {
						c.Count("avail-tie-zone")
					}
					if ph != want && !(tie && ph == 2) && !tieAvail {
						c.Violate("availability-instant", fmt.Sprintf("k=%d now=%d (available from %d, until %d, ato=%d tsbd=%d): got phase %d want %d",
							k, now, av, goneAt, ato, tsbd, ph, want), []string{line}, out)
					}
					if tie {
						c.Count("gone-tie-zone")
					}
					if ph == 1 && now >= av && now <= av+int64(tsbd)*1000 {
						c.Count("within-tsbd-ok")
					}
					// 425 body states the remaining ms
					if ph == 0 && now >= int64(startS)*1000 {
						if m := regexp.MustCompile(`425 ms=(-?\d+)`).FindStringSubmatch(out); m != nil {
							got, _ := strconv.ParseInt(m[1], 10, 64)
							num := int64(e.end)*1000 - int64(atoEff)*int64(T) + int64(startS)*1000*int64(T) - now*int64(T)
							want := (2*num + int64(T)) / (2 * int64(T))
							if got != want && !(2*num%int64(T) == 0 && (2*num/int64(T))%2 == 1) {
								c.Violate("remaining-ms", fmt.Sprintf("k=%d now=%d: body says %d ms, remaining is %d ms", k, now, got, want), []string{line}, out)
							}
						}
					}
				}
				// below startNr / unknown representation -> 404
				if snr > 0 && mode != "tlt" {
					// asked at an instant of the stream: before availabilityStartTime every request is answered 425
					// (an offset larger than the first segment puts av before the stream start)
					at := av + 5
					if at < int64(startS)*1000 {
						at = int64(startS)*1000 + 5
					}
					line := fmt.Sprintf("seg %s %s %s %d %d", a.AssetPath, cf.s, rep.ID, snr-1, at)
					if out := c.Emit(line, true); out != "404" {
						c.Violate("below-startnr", "segment numbered before startNumber: "+out, []string{line}, nil)
					}
				}
			}
		}
		line := fmt.Sprintf("seg %s - nosuchrep 3 100000", a.AssetPath)
		if out := c.Emit(line, true); out != "404" {
			c.Violate("unknown-rep", "unknown representation: "+out, []string{line}, nil)
		}
	}
	c04TimeSubs(c)
}

// c04TimeSubs: the generated time-subtitle representations follow the reference video segment: same status (and the
// same remaining milliseconds) at every instant around both transitions, for offsets below / above a segment and infinite.
func c04TimeSubs(c *Ctx) {
	r := c.Rng
	for ai := range vAssets {
		a := &vAssets[ai]
		ref := refRepOf(a)
		if ref == nil || ref.ContentType != "video" || a.SegmentDurMS == 0 {
			continue
		}
		n := len(ref.Segments)
		for it := 0; it < c.N(4, 30); it++ {
			startS := r.Pick(0, 61, 1000000)
			tsbd := r.Pick(10, 60)
			ato := r.Pick(0, 500, a.SegmentDurMS+1000, a.SegmentDurMS*2, -1)
			snr := r.Pick(0, 0, 1, 5)
			cf := mkCfg(startS, tsbd, snr, ato, r.PickS("n", "n", "tln"))
			k := r.Pick(0, 1, n, 3*n+1, 25)
			if snr > 0 && r.Intn(3) == 0 {
				k = -r.Range(1, snr) // a number below startNumber: 404 for the subtitles as for the video
			}
			e := expectSeg(a, ref, maxInt(k, 0), snr)
			if k < 0 {
				e.nr = snr + k
			}
			atoEff := ato
			if ato < 0 {
				atoEff = 0
			}
			av, _ := availMS(e, ref.MediaTimescale, startS, atoEff)
			goneAt := av + int64(tsbd+10)*1000
			kind := r.PickS("stpp", "wvtt")
			subCfg := strings.TrimPrefix(cf.s+",timesubs"+kind+"=en", "-,")
			for _, now := range []int64{av - 1, av, av + 1, av + 500, av + 1000, av + int64(a.SegmentDurMS), goneAt - 5, goneAt + 5, int64(startS)*1000 + 10} {
				if now < int64(startS)*1000 {
					continue
				}
				nowS := strconv.FormatInt(now, 10)
				vres := doLive("GET", segURL(a, cf.s, ref.ID, strconv.Itoa(e.nr), nowS))
				sres := doLive("GET", "/livesim2/"+cfgToURL(subCfg)+a.AssetPath+"/time"+kind+"-en/"+strconv.Itoa(e.nr)+".m4s?nowMS="+nowS)
				c.Count("timesubs-availability")
				vs, _ := statusOnly(vres)
				ss, _ := statusOnly(sres)
				if vres.code != sres.code || (vres.code == 425 && vs != ss) || sres.panicked != "" {
					c.Violate("timesubs-availability", fmt.Sprintf("k=%d ato=%d now=%d: generated %s subtitle segment answers %d %s, the reference video segment %d %s",
						k, ato, now, kind, sres.code, ss, vres.code, vs), []string{"# GET /livesim2/" + cfgToURL(subCfg) + a.AssetPath + "/time" + kind + "-en/" + strconv.Itoa(e.nr) + ".m4s?nowMS=" + nowS}, nil)
					break
				}
			}
		}
	}
}
