package main

// C02 (MPD and segment server agree) and C05 (MPD only moves forward, publishTime identifies content): generators
// over the `mpd` op and monitors that read the served MPD the way a DASH client does.

import (
	"fmt"
	"os"
	"regexp"
	"sort"
	"strconv"
	"strings"

	"github.com/Dash-Industry-Forum/livesim2/cmd/livesim2/app"
	"github.com/Eyevinn/mp4ff/bits"
	"github.com/Eyevinn/mp4ff/mp4"
)

func init() {
	generators["C02"] = genC02
	generators["C05"] = genC05
}

type fetched struct {
	code  int
	panic string
	nr    uint32
	tfdt  uint64
	dur   uint64
	tie   bool
}

var trexCache = map[string]*mp4.TrexBox{}

// fetchSegment GETs a media segment and returns status and (number, decode time, duration).
func fetchSegment(url string, a *app.VerifAsset, repID string) fetched {
	res := doLive("GET", url)
	f := fetched{code: res.code, panic: res.panicked}
	if res.code == 425 && tooEarlyRe.Match(res.body) && string(tooEarlyRe.FindSubmatch(res.body)[1]) == "0" {
		f.tie = true // "too early by 0ms": float rounding at the exact availability instant (DESIGN.md §3.2)
	}
	if res.panicked != "" || res.code != 200 || strings.HasSuffix(strings.Split(url, "?")[0], ".jpg") {
		return f
	}
	var trex *mp4.TrexBox
	for i := range a.Reps {
		if a.Reps[i].ID == repID {
			trex = vodFiles(a, &a.Reps[i]).trex
		}
	}
	mf, err := mp4.DecodeFileSR(bits.NewFixedSliceReader(res.body))
	if err != nil || len(mf.Segments) == 0 || len(mf.Segments[0].Fragments) == 0 {
		f.code = -1
		return f
	}
	fr := mf.Segments[0].Fragments[0]
	f.nr = fr.Moof.Mfhd.SequenceNumber
	f.tfdt = fr.Moof.Traf.Tfdt.BaseMediaDecodeTime()
	for _, s := range mf.Segments {
		for _, g := range s.Fragments {
			fss, err := g.GetFullSamples(trex)
			if err != nil {
				f.code = -1
				return f
			}
			for _, x := range fss {
				f.dur += uint64(x.Dur)
			}
		}
	}
	return f
}

type declared struct {
	url  string
	nr   int64 // -1 unknown
	t    int64 // in the template's timescale, -1 unknown
	d    int64
	ts   int64
	tlEx bool // exact (timeline) or implicit (duration template)
}

func fillTemplate(media, repID string, nr, t int64) string {
	s := strings.ReplaceAll(media, "$RepresentationID$", repID)
	s = strings.ReplaceAll(s, "$Number$", strconv.FormatInt(nr, 10))
	return strings.ReplaceAll(s, "$Time$", strconv.FormatInt(t, 10))
}

// declaredSegments interprets an AdaptationSet of a single-period dynamic MPD like a DASH client at instant nowMS.
func declaredSegments(m *xMPD, as *xAS, asset, cfgURL string, nowMS int64, tsbdS, atoMS int64, infATO bool) ([]declared, *declared) {
	st := as.SegmentTemplate
	if st == nil || len(as.Representations) == 0 {
		return nil, nil
	}
	rep := as.Representations[0].ID
	ts := int64(1)
	if st.Timescale != nil {
		ts = int64(*st.Timescale)
	}
	mk := func(nr, t, d int64, exact bool) declared {
		return declared{url: "/livesim2/" + cfgURL + asset + "/" + fillTemplate(st.Media, rep, nr, t) + "?nowMS=" + strconv.FormatInt(nowMS, 10),
			nr: nr, t: t, d: d, ts: ts, tlEx: exact}
	}
	var out []declared
	if st.Timeline != nil {
		sn := int64(-1)
		if st.StartNumber != nil {
			sn = int64(*st.StartNumber)
		} else if !strings.Contains(st.Media, "$Time$") {
			sn = 1
		}
		for j, e := range expandTL(st) {
			nr := int64(-1)
			if sn >= 0 {
				nr = sn + int64(j)
			}
			out = append(out, mk(nr, int64(e[0]), int64(e[1]), true))
		}
		var next *declared
		if len(out) > 0 {
			l := out[len(out)-1]
			nn := int64(-1)
			if l.nr >= 0 {
				nn = l.nr + 1
			}
			n := mk(nn, l.t+l.d, l.d, true)
			next = &n
		}
		return out, next
	}
	if st.Duration == nil {
		return nil, nil
	}
	// duration template: segment j (from 0) covers [j*d, (j+1)*d) / ts; available at AST + (j+1)*d/ts - ato
	ast, _ := dateToMS(m.AST)
	d := int64(*st.Duration)
	sn := int64(1)
	if st.StartNumber != nil {
		sn = int64(*st.StartNumber)
	}
	rel := nowMS - ast // ms since AST
	if rel < 0 {
		return nil, nil
	}
	// largest j with (j+1)*d*1000 <= (rel+ato)*ts
	jmax := ((rel+atoMS)*ts)/(d*1000) - 1
	// smallest j whose end is not before the window start
	jmin := int64(0)
	if w := rel - tsbdS*1000; w > 0 {
		jmin = (w*ts + d*1000 - 1) / (d * 1000) // ceil(w*ts/(d*1000)) : first j with (j+1)*d >= ... approx: end >= window start
		if jmin > 0 {
			jmin--
		}
	}
	if infATO {
		return nil, nil // everything from stream start is available: enumerated by the generator separately
	}
	for j := jmin; j <= jmax; j++ {
		out = append(out, mk(sn+j, j*d, d, false))
	}
	n := mk(sn+jmax+1, (jmax+1)*d, d, false)
	return out, &n
}

// breakpoints returns the instants (ms since AST) at which the MPD of (asset, rep) may change, in [from, to].
func breakpoints(a *app.VerifAsset, r *app.VerifRep, fromMS, toMS int64, tsbdS, atoMS int64) []int64 {
	set := map[int64]bool{}
	n := len(r.Segments)
	T := int64(r.MediaTimescale)
	wrapDur := int64(a.LoopDurMS) * T / 1000
	loops := fromMS / int64(a.LoopDurMS)
	for w := loops - 1; w <= toMS/int64(a.LoopDurMS)+1; w++ {
		if w < 0 {
			continue
		}
		for i := 0; i < n; i++ {
			end := w*wrapDur + int64(r.Segments[i].EndTime)
			ms := end * 1000 / T
			for _, b := range []int64{ms - atoMS, ms - atoMS + tsbdS*1000, ms - atoMS + (tsbdS+10)*1000} {
				for d := int64(-1); d <= 1; d++ {
					if b+d >= fromMS && b+d <= toMS {
						set[b+d] = true
					}
				}
			}
		}
	}
	var out []int64
	for k := range set {
		out = append(out, k)
	}
	sort.Slice(out, func(i, j int) bool { return out[i] < out[j] })
	return out
}

type mpdCase struct {
	a      *app.VerifAsset
	name   string
	cf     cfgVar
	stopS  int // -1 none
	cfgStr string
}

func mpdCfgStr(cf cfgVar, stopS int) string {
	s := cf.s
	if stopS >= 0 {
		if s == "-" {
			s = fmt.Sprintf("stop=%d", stopS)
		} else {
			s += fmt.Sprintf(",stop=%d", stopS)
		}
	}
	return s
}

func refRepOf(a *app.VerifAsset) *app.VerifRep {
	for i := range a.Reps {
		if a.Reps[i].ID == a.RefRep {
			return &a.Reps[i]
		}
	}
	return nil
}

func pickInstants(c *Ctx, a *app.VerifAsset, cf cfgVar, n int) []int64 {
	ref := refRepOf(a)
	if ref == nil {
		return nil
	}
	r := c.Rng
	ato := int64(cf.atoMS)
	if ato < 0 {
		ato = 0
	}
	var rel []int64
	// right after stream start, 2 loops in, and far from the epoch (2026 if start is 0)
	rel = append(rel, 0, 1, int64(a.SegmentDurMS)-1, int64(a.SegmentDurMS), int64(a.SegmentDurMS)+1)
	bp := breakpoints(a, ref, 0, 3*int64(a.LoopDurMS), int64(cf.tsbd), ato)
	far := int64(1790000000000) - int64(cf.startS)*1000
	if far < 0 {
		far = 1000000
	}
	bp2 := breakpoints(a, ref, far, far+2*int64(a.LoopDurMS), int64(cf.tsbd), ato)
	all := append(bp, bp2...)
	for i := 0; i < n && len(all) > 0; i++ {
		rel = append(rel, all[r.Intn(len(all))])
	}
	for i := 0; i < n/3+1; i++ {
		rel = append(rel, int64(r.Intn(3*a.LoopDurMS+1)), far+int64(r.Intn(2*a.LoopDurMS+1)))
	}
	sort.Slice(rel, func(i, j int) bool { return rel[i] < rel[j] })
	var out []int64
	for i, x := range rel {
		if i > 0 && x == rel[i-1] {
			continue
		}
		out = append(out, x+int64(cf.startS)*1000)
	}
	return out
}

func c02Configs(c *Ctx, thorough bool) []cfgVar {
	var out []cfgVar
	modes := []string{"n", "tlt", "tln"}
	for _, mode := range modes {
		out = append(out, mkCfg(0, 60, 0, 0, mode))
	}
	r := c.Rng
	k := 5
	if thorough {
		k = 30
	}
	for i := 0; i < k; i++ {
		mode := modes[r.Intn(3)]
		ato := r.Pick(0, 0, 500, 1500, 250, 1001, 1005, 1130) // (1.001, 1.005, 1.13: decimal fractions whose product with 1000 falls just below the whole number in float64)
		if mode == "n" && r.Intn(6) == 0 {
			ato = -1
		}
		out = append(out, mkCfg(r.Pick(0, 61, 1000), r.Pick(0, 10, 30, 60, 61, 300), r.Pick(0, 0, 1, 5), ato, mode))
	}
	return out
}

func genC02(c *Ctx) {
	c.emitAssetDefs()
	c.emitMpdDefs()
	for ai := range vAssets {
		a := &vAssets[ai]
		for _, name := range a.MPDs {
			for _, cf := range c02Configs(c, c.Thorough()) {
				for _, now := range pickInstants(c, a, cf, c.N(6, 40)) {
					line := fmt.Sprintf("mpd %s %s %s %d", a.AssetPath, cf.s, name, now)
					out := c.Emit(line, true)
					if strings.HasPrefix(out, "PANIC") {
						c.Violate("mpd-panic", "MPD request panics", []string{line}, nil)
						continue
					}
					if !strings.HasPrefix(out, "dynamic") {
						if cf.atoMS < 0 && cf.mode != "n" {
							continue
						}
						c.Violate("mpd-not-served", "MPD request fails: "+out, []string{line}, nil)
						continue
					}
					c02Monitor(c, a, name, cf, now, line)
				}
			}
		}
	}
	// generated time subtitles (stpp and wvtt AdaptationSets added by the URL configuration): monitor only — the MPD
	// model does not carry them; the declared subtitle segments are fetched like all others
	for ai := range vAssets {
		a := &vAssets[ai]
		ref := refRepOf(a)
		if ref == nil || ref.ContentType != "video" || len(a.MPDs) == 0 {
			continue
		}
		for _, cf := range []cfgVar{mkCfg(0, 60, 0, 0, "n"), mkCfg(0, 30, 0, 0, "tlt"), mkCfg(61, 60, 3, 0, "tln"), mkCfg(61, 10, 0, 0, "n")} {
			cf.s = strings.TrimPrefix(cf.s+",timesubsstpp=en,timesubswvtt=sv", "-,")
			for _, now := range pickInstants(c, a, cf, c.N(2, 10)) {
				line := fmt.Sprintf("# mpd %s %s %s %d", a.AssetPath, cf.s, a.MPDs[0], now)
				c.Count("timesubs-mpd")
				c02Monitor(c, a, a.MPDs[0], cf, now, line)
			}
		}
	}
}

// c02Monitor: every declared segment is served with the declared time/duration/number; the one after the edge is 425;
// last listed = newest ended; first listed not older than the window allows.
func c02Monitor(c *Ctx, a *app.VerifAsset, name string, cf cfgVar, now int64, line string) {
	res := doLive("GET", mpdURL(a.AssetPath, cf.s, name, strconv.FormatInt(now, 10)))
	m, err := parseMPD(res.body)
	if err != nil || len(m.Periods) != 1 {
		return
	}
	cfgURL := cfgToURL(cf.s)
	ato := int64(cf.atoMS)
	if ato < 0 {
		ato = 0
	}
	ast, _ := dateToMS(m.AST)
	for i := range m.Periods[0].Sets {
		as := &m.Periods[0].Sets[i]
		ct := asContentType(as)
		decl, next := declaredSegments(m, as, a.AssetPath, cfgURL, now, int64(cf.tsbd), ato, cf.atoMS < 0)
		if len(as.Representations) == 0 {
			continue
		}
		if len(decl) > 0 && !decl[0].tlEx && !uniformRef(a) {
			// a duration template cannot describe varying segment durations exactly ("within the duration variation"):
			// the implicit list is only checked for constant-duration assets
			// the implicit list is checked within the variation of the reference grid around its average segment duration
			// (only where livesim2 derives the duration itself: a VoD MPD that states a nominal @duration over varying
			// segment durations is passed on as it is)
			if vodTemplateHasNoDuration(a.AssetPath, name, as.Representations[0].ID) {
				c02VarTemplate(c, a, as, ct, decl, cf, now, line)
			} else {
				c.Count("template-variable-durations-skipped")
			}
			continue
		}
		repID := as.Representations[0].ID
		// sample the declared list: first, last, and a few in between (all in thorough)
		idxs := map[int]bool{0: true, len(decl) - 1: true, len(decl) / 2: true, 1: true}
		for j, d := range decl {
			if !c.Thorough() && !idxs[j] {
				continue
			}
			f := fetchSegment(d.url, a, repID)
			c.Count("declared-fetched." + ct)
			rp := []string{line, "# GET " + d.url}
			switch {
			case f.panic != "":
				c.Violate("declared-panic", fmt.Sprintf("%s: declared segment %d of %d panics (%s)", ct, j, len(decl), f.panic), rp, nil)
			case f.tie:
				c.Count("too-early-tie-zone")
			case f.code != 200:
				c.Violate("declared-not-served", fmt.Sprintf("%s: segment %d of %d declared by the MPD (nr=%d t=%d) answered %d", ct, j, len(decl), d.nr, d.t, f.code), rp, nil)
			case ct == "image":
			case d.tlEx && (int64(f.tfdt) != d.t || int64(f.dur) != d.d):
				c.Violate("declared-time", fmt.Sprintf("%s: MPD declares (t=%d,d=%d), segment has (tfdt=%d,dur=%d)", ct, d.t, d.d, f.tfdt, f.dur), rp, nil)
			case d.nr >= 0 && int64(f.nr) != d.nr%(1<<32):
				c.Violate("declared-number", fmt.Sprintf("%s: MPD declares number %d, segment carries %d", ct, d.nr, f.nr), rp, nil)
			}
		}
		if next != nil && len(decl) > 0 {
			f := fetchSegment(next.url, a, repID)
			if f.code != 425 && f.panic == "" {
				// with a duration template and varying segment durations the implicit edge may lag: only the exact timelines are strict
				if decl[0].tlEx || f.code != 200 {
					c.Violate("after-edge-served", fmt.Sprintf("%s: the segment just after the MPD's live edge answered %d, want 425", ct, f.code), []string{line, "# GET " + next.url}, nil)
				} else {
					c.Count("template-edge-lag")
				}
			}
		}
		// timeline shape
		if len(decl) > 0 && decl[0].tlEx && ct != "audio" { // audio follows the video grid (ends up to one frame later)
			l := decl[len(decl)-1]
			endMS1000 := (l.t + l.d) * 1000 // * ts
			nowRel := (now - ast + ato) * l.ts
			if endMS1000 > nowRel {
				c.Violate("last-not-ended", fmt.Sprintf("%s: last listed segment ends at %d/%d s, after now+ato", ct, l.t+l.d, l.ts), []string{line}, nil)
			}
			fst := decl[0]
			// not older than the window allows: the segment after the first must end after the window start
			winRel := (now - ast - int64(cf.tsbd)*1000 + ato) * fst.ts
			if len(decl) > 1 {
				sec := decl[1]
				// the window start is converted to ticks by two floor divisions (ms->ticks for now-tsbd and for ato):
				// tolerate two ticks
				if (sec.t+sec.d+2)*1000 <= winRel {
					c.Violate("first-too-old", fmt.Sprintf("%s: second listed segment already ended before the time-shift window start", ct), []string{line}, nil)
				}
			}
			for j := 1; j < len(decl); j++ {
				if decl[j].t != decl[j-1].t+decl[j-1].d {
					c.Violate("timeline-gap", fmt.Sprintf("%s: timeline entry %d starts at %d, previous ends at %d", ct, j, decl[j].t, decl[j-1].t+decl[j-1].d), []string{line}, nil)
					break
				}
			}
		}
	}
}

// ---- C05 ----

func genC05(c *Ctx) {
	c.emitAssetDefs()
	c.emitMpdDefs()
	r := c.Rng
	c05WholeDoc(c)
	for ai := range vAssets {
		a := &vAssets[ai]
		for _, name := range a.MPDs {
			if !c.Thorough() && name != a.MPDs[0] {
				continue
			}
			var cfgs []cfgVar
			for _, mode := range []string{"n", "tlt", "tln"} {
				cfgs = append(cfgs, mkCfg(0, 60, 0, 0, mode), mkCfg(r.Pick(0, 61), r.Pick(10, 30, 61, 300), r.Pick(0, 5), r.Pick(0, 500, 1500, 1005), mode))
			}
			type c05job struct {
				cf    cfgVar
				stopS int
				cs    string
				nows  []int64
			}
			var jobs []c05job
			for _, cf := range cfgs {
				stopS := -1
				if r.Intn(4) == 0 {
					stopS = cf.startS + r.Pick(2, 7, 30, 100)
				}
				jobs = append(jobs, c05job{cf, stopS, mpdCfgStr(cf, stopS), pickInstants(c, a, cf, c.N(10, 60))})
			}
			// split into periods with an availability offset: a new Period is listed at its start, the segment that ends
			// there becomes available earlier, the first entry changes at yet another instant — around a period boundary
			if ref := refRepOf(a); ref != nil && ref.ContentType == "video" && a.SegmentDurMS > 0 {
				for _, pph := range []int{60, 30, 7} { // 7: 3600/7 = 514 s, no divisor of the hour
					pd := 3600 / pph
					if pd*1000%a.SegmentDurMS != 0 || !periodStartsAligned(a, pd) || (!c.Thorough() && pph != 60 && ai%2 == (pph%2)) {
						continue
					}
					cf := mkCfg(r.Pick(0, 0, 61), r.Pick(60, 30, 25), 0, r.Pick(500, 1500, 3500, 0), r.PickS("tlt", "tln", "n"))
					if cf.mode == "n" {
						cf = mkCfg(cf.startS, cf.tsbd, 0, 0, "n")
					}
					if cf.atoMS >= a.SegmentDurMS {
						cf = mkCfg(cf.startS, cf.tsbd, 0, 500, cf.mode)
					}
					B := int64(cf.startS)*1000 + (int64(1790000000000)/int64(pd*1000))*int64(pd*1000)
					var nows []int64
					for d := -int64(a.SegmentDurMS); d <= 2*int64(a.SegmentDurMS); d += 250 {
						nows = append(nows, B+d, B+d+1)
					}
					// ... and around the instant the oldest Period leaves the time-shift window (its successor's start + tsbd)
					if W := B + int64(cf.tsbd)*1000; W-int64(a.SegmentDurMS) > nows[len(nows)-1] {
						for d := -int64(a.SegmentDurMS); d <= int64(a.SegmentDurMS); d += 250 {
							nows = append(nows, W+d-1, W+d)
						}
					}
					jobs = append(jobs, c05job{cf, -1, withPeriods(cf.s, pph, false), nows})
					c.Count("c05-period-jobs")
				}
			}
			for _, jb := range jobs {
				cf, stopS, cs, nows := jb.cf, jb.stopS, jb.cs, jb.nows
				var prev *xMPD
				var prevLine, prevRaw string
				var prevNow int64
				for _, now := range nows {
					line := fmt.Sprintf("mpd %s %s %s %d", a.AssetPath, cs, name, now)
					out := c.Emit(line, true)
					if !strings.HasPrefix(out, "dynamic") && !strings.HasPrefix(out, "static") {
						c.Violate("mpd-not-served", "MPD request fails: "+out, []string{line}, nil)
						continue
					}
					res := doLive("GET", mpdURL(a.AssetPath, cs, name, strconv.FormatInt(now, 10)))
					m, err := parseMPD(res.body)
					if err != nil {
						continue
					}
					raw := canonMPDContent(m)
					pt, _ := dateToMS(m.PublishTime)
					if stopS >= 0 && now > int64(stopS)*1000 {
						d, _ := durToMS(m.MPDur)
						if m.Type != "static" || d != int64(stopS-cf.startS)*1000 || m.TSBD != "" || m.MUP != "" {
							c.Violate("static-after-stop", fmt.Sprintf("after stop: type=%s duration=%s tsbd=%q mup=%q", m.Type, m.MPDur, m.TSBD, m.MUP), []string{line}, nil)
						}
						prev = nil
						continue
					}
					if pt > now {
						c.Violate("pt-after-now", fmt.Sprintf("publishTime %d ms is later than the request instant %d", pt, now), []string{line}, nil)
					}
					// publishTime names the instant of the most recent change: the MPD requested *at* that instant is already this one
					if pt < now && pt >= int64(cf.startS)*1000 && c.Rng.Intn(3) == 0 {
						r2 := doLive("GET", mpdURL(a.AssetPath, cs, name, strconv.FormatInt(pt, 10)))
						if m2, err := parseMPD(r2.body); err == nil && r2.code == 200 {
							c.Count("pt-instant-checked")
							if pt2, _ := dateToMS(m2.PublishTime); pt2 != pt || canonMPDContent(m2) != raw {
								c.Violate("pt-not-change-instant", fmt.Sprintf("the MPD at now=%d has publishTime %d, but the MPD requested at %d has publishTime %d / other content: %d is not the instant of the last change", now, pt, pt, pt2, pt),
									[]string{line, fmt.Sprintf("mpd %s %s %s %d", a.AssetPath, cs, name, pt)}, nil)
							}
						}
					}
					if prev != nil {
						ppt, _ := dateToMS(prev.PublishTime)
						rp := []string{prevLine, line}
						if pt < ppt {
							c.Violate("pt-decreases", fmt.Sprintf("publishTime went from %d to %d between now=%d and now=%d", ppt, pt, prevNow, now), rp, nil)
						}
						if pt == ppt && raw != prevRaw {
							c.Violate("pt-same-content-differs", fmt.Sprintf("same publishTime %d, different content at now=%d and now=%d", pt, prevNow, now), rp, nil)
						}
						if pt != ppt && raw == prevRaw {
							c.Violate("pt-differs-content-same", fmt.Sprintf("publishTime %d -> %d but identical content", ppt, pt), rp, nil)
						}
						c05Edges(c, prev, m, rp)
						if cf.mode == "n" && raw != prevRaw && !strings.Contains(cs, "periods") {
							c.Violate("number-mpd-changes", "plain $Number$ single-period MPD changed over time", rp, nil)
						}
					}
					prev, prevLine, prevRaw, prevNow = m, line, raw, now
				}
			}
		}
	}
}

var ptAttrRe = regexp.MustCompile(`publishTime="([^"]*)"`)
var patchLocRe = regexp.MustCompile(`(?s)<PatchLocation[^>]*>.*?</PatchLocation>`)

// c05WholeDoc: the whole served document (not a projection of it), with the publishTime attribute and the PatchLocation
// that embeds it blanked, over a dense sequence of instants and with the URL options that add elements outside the
// timeline (UTCTiming of every kind, SCTE-35 announcement, generated subtitles, DRM, latency target, update period):
// equal publishTime <=> equal document; a plain $Number$ single-period MPD is the same document at every instant.
func c05WholeDoc(c *Ctx) {
	getServer()
	feats := []string{"", "utc_direct/", "utc_direct-ntp-head/", "utc_httpxsdate-httpiso/", "utc_none/", "scte35_1/", "timesubsstpp_en/", "eccp_cbcs/", "ltgt_3000/", "mup_2/", "spd_8/",
		"utc_direct/ato_1/chunkdur_0.5/", "patch_60/utc_direct/", "snr_7/utc_direct/"}
	for _, name := range []string{"testpic_2s", "testpic_8s", "gen_ntsc441"} {
		a := findVAsset(name)
		if a == nil || len(a.MPDs) == 0 {
			continue
		}
		for fi, ft := range feats {
			for mi, mode := range []string{"", "segtimeline_1/", "segtimelinenr_1/"} {
				if !c.Thorough() && (fi+mi)%3 != 0 && !strings.Contains(ft, "utc_direct") {
					continue
				}
				if strings.Contains(ft, "chunkdur") && a.SegmentDurMS <= 1000 {
					continue
				}
				base := int64(a.LoopDurMS)*3 + 777
				var prevDoc, prevPT, prevURL string
				for d := int64(0); d <= int64(3*a.SegmentDurMS); d += int64(c.Rng.Pick(1, 37, 250, 499, a.SegmentDurMS/2)) {
					u := fmt.Sprintf("/livesim2/%s%s%s/%s?nowMS=%d", mode, ft, a.AssetPath, a.MPDs[0], base+d)
					res := doLive("GET", u)
					c.Count("whole-doc")
					if res.code != 200 {
						c.Violate("mpd-not-served", fmt.Sprintf("MPD request fails: %d", res.code), []string{"# GET " + u}, nil)
						break
					}
					body := string(res.body)
					pt := ""
					if m := ptAttrRe.FindStringSubmatch(body); m != nil {
						pt = m[1]
					}
					doc := patchLocRe.ReplaceAllString(ptAttrRe.ReplaceAllString(body, `publishTime=""`), "<PatchLocation/>")
					if prevURL != "" {
						rp := []string{"# GET " + prevURL, "# GET " + u}
						switch {
						case pt == prevPT && doc != prevDoc:
							c.Violate("pt-same-content-differs", fmt.Sprintf("same publishTime %s, but the documents differ (%s)", pt, firstDiff(prevDoc, doc)), rp, nil)
						case pt != prevPT && doc == prevDoc:
							c.Violate("pt-differs-content-same", fmt.Sprintf("publishTime %s -> %s but identical documents", prevPT, pt), rp, nil)
						case mode == "" && !strings.Contains(ft, "patch") && (doc != prevDoc || pt != prevPT):
							c.Violate("number-mpd-changes", fmt.Sprintf("plain $Number$ single-period MPD changed over time (%s)", firstDiff(prevDoc, doc)), rp, nil)
						}
					}
					prevDoc, prevPT, prevURL = doc, pt, u
				}
			}
		}
	}
}

func firstDiff(a, b string) string {
	i := 0
	for i < len(a) && i < len(b) && a[i] == b[i] {
		i++
	}
	lo := i - 40
	if lo < 0 {
		lo = 0
	}
	ha, hb := i+40, i+40
	if ha > len(a) {
		ha = len(a)
	}
	if hb > len(b) {
		hb = len(b)
	}
	return fmt.Sprintf("at byte %d: %q vs %q", i, a[lo:ha], b[lo:hb])
}

// canonMPDContent: everything but publishTime (and the PatchLocation that embeds it).
func canonMPDContent(m *xMPD) string {
	var sb strings.Builder
	fmt.Fprintf(&sb, "%s|%s|%s|%s|%s", m.Type, m.AST, m.MPDur, m.TSBD, m.MUP)
	for _, p := range m.Periods {
		fmt.Fprintf(&sb, "\nP %s %s", p.ID, p.Start)
		for i := range p.Sets {
			st := p.Sets[i].SegmentTemplate
			pto := "-"
			if st != nil && st.PTO != nil {
				pto = strconv.FormatUint(*st.PTO, 10)
			}
			fmt.Fprintf(&sb, "\n  %s pto=%s", asLine(&p.Sets[i]), pto)
		}
	}
	return sb.String()
}

func c05Edges(c *Ctx, a, b *xMPD, rp []string) {
	if len(a.Periods) != 1 || len(b.Periods) != 1 {
		return
	}
	for i := range a.Periods[0].Sets {
		if i >= len(b.Periods[0].Sets) {
			break
		}
		sa, sb := a.Periods[0].Sets[i].SegmentTemplate, b.Periods[0].Sets[i].SegmentTemplate
		if sa == nil || sb == nil || sa.Timeline == nil || sb.Timeline == nil {
			continue
		}
		ea, eb := expandTL(sa), expandTL(sb)
		if len(ea) == 0 || len(eb) == 0 {
			continue
		}
		if eb[0][0] < ea[0][0] {
			c.Violate("first-moves-back", fmt.Sprintf("first listed segment moved back from t=%d to t=%d", ea[0][0], eb[0][0]), rp, nil)
		}
		if eb[len(eb)-1][0] < ea[len(ea)-1][0] {
			c.Violate("last-moves-back", fmt.Sprintf("last listed segment moved back from t=%d to t=%d", ea[len(ea)-1][0], eb[len(eb)-1][0]), rp, nil)
		}
	}
}

// vodTemplateHasNoDuration: the AdaptationSet of the VoD MPD that holds repID has a SegmentTemplate without @duration.
func vodTemplateHasNoDuration(asset, name, repID string) bool {
	b, err := os.ReadFile(vodRoot() + "/" + asset + "/" + name)
	if err != nil {
		return false
	}
	vm, err := parseMPD(b)
	if err != nil || len(vm.Periods) == 0 {
		return false
	}
	for i := range vm.Periods[0].Sets {
		vs := &vm.Periods[0].Sets[i]
		for _, r := range vs.Representations {
			if r.ID == repID {
				return vs.SegmentTemplate != nil && vs.SegmentTemplate.Duration == nil
			}
		}
	}
	return false
}

// refVariationMS: how far (ms, rounded up) a segment boundary of the reference representation is from the grid of its
// average segment duration, over one loop (the pattern repeats with the loop).
func refVariationMS(a *app.VerifAsset) int64 {
	r := refRepOf(a)
	if r == nil || len(r.Segments) == 0 {
		return 0
	}
	n := int64(len(r.Segments))
	t0 := int64(r.Segments[0].StartTime)
	loop := int64(r.Segments[n-1].EndTime) - t0
	var dev int64 // in ticks * n
	for k, sg := range r.Segments {
		for _, v := range []int64{(int64(sg.StartTime)-t0)*n - int64(k)*loop, (int64(sg.EndTime)-t0)*n - int64(k+1)*loop} {
			if v < 0 {
				v = -v
			}
			if v > dev {
				dev = v
			}
		}
	}
	T := int64(r.MediaTimescale) * n
	return (dev*1000 + T - 1) / T
}

// c02VarTemplate: a duration template over varying segment durations.  Every declared segment is served at the latest
// one variation after the instant the template implies, carries the declared number, and its decode time is within the
// variation (plus one audio frame) of the declared one.
func c02VarTemplate(c *Ctx, a *app.VerifAsset, as *xAS, ct string, decl []declared, cf cfgVar, now int64, line string) {
	v := refVariationMS(a)
	if v <= 0 || v >= 9000 || len(decl) == 0 { // (the window margin is 10 s)
		c.Count("template-variable-durations-skipped")
		return
	}
	repID := as.Representations[0].ID
	later := strconv.FormatInt(now+v+1, 10)
	idxs := map[int]bool{0: true, len(decl) - 1: true, len(decl) / 2: true, 1: true}
	for j, d := range decl {
		if !c.Thorough() && !idxs[j] {
			continue
		}
		u := d.url[:strings.LastIndex(d.url, "?nowMS=")] + "?nowMS=" + later
		f := fetchSegment(u, a, repID)
		c.Count("declared-fetched-variable." + ct)
		rp := []string{line, "# GET " + u}
		tol := (v + 70) * d.ts // ms * ts
		diff := (int64(f.tfdt) - d.t) * 1000
		if diff < 0 {
			diff = -diff
		}
		switch {
		case f.panic != "":
			c.Violate("declared-panic", fmt.Sprintf("%s: declared segment %d of %d panics (%s)", ct, j, len(decl), f.panic), rp, nil)
		case f.tie:
		case f.code != 200:
			c.Violate("declared-not-served", fmt.Sprintf("%s: segment %d of %d declared by the duration template (nr=%d, t=%d/%d) answered %d even %d ms (the duration variation of the asset) after the MPD instant", ct, j, len(decl), d.nr, d.t, d.ts, f.code, v), rp, nil)
		case ct == "image":
		case d.nr >= 0 && int64(f.nr) != d.nr%(1<<32):
			c.Violate("declared-number", fmt.Sprintf("%s: MPD declares number %d, segment carries %d", ct, d.nr, f.nr), rp, nil)
		case diff > tol:
			c.Violate("declared-time", fmt.Sprintf("%s: the duration template puts number %d at t=%d/%d, the segment has tfdt=%d: further apart than the duration variation %d ms", ct, d.nr, d.t, d.ts, f.tfdt, v), rp, nil)
		}
	}
}

// uniformRef: all segments of the reference representation have the same duration.
func uniformRef(a *app.VerifAsset) bool {
	r := refRepOf(a)
	if r == nil || len(r.Segments) == 0 {
		return false
	}
	d := r.Segments[0].EndTime - r.Segments[0].StartTime
	for _, s := range r.Segments {
		if s.EndTime-s.StartTime != d {
			return false
		}
	}
	return true
}
